"""C16 — simulated time is an exact, totally ordered integer quantity; event-queue order.

M: TLC checks the laws of spec/ErdosTime.tla on every pair / triple of a grid of
   counts x units, the limb operators against native integers (tiny base:
   exhaustive; real base: boundary grid), and spec/EventQueue.tla exhaustively
   (pop-min, pop order, ...).
R: the same TLC run dumps every grid case with the spec's expected result; each is
   executed on the real `EventTime`.  The EventQueue state graph is dumped and
   replayed on a real `EventQueue` holding real `Event` objects: every mutator path
   to depth D (observers at the end), every path to depth D-1 with all read-only /
   refused calls after each step, each followed by draining the queue; then a walk
   covering every (state, call) pair of the graph and random walks.
   Deep queues (7-12 pending events, heap levels 3-4) cannot be enumerated: seeded random histories
   (fill, removals / re-timings in the middle that avoid the root and the last insert, full
   drain) are executed on the real queue; TLC validates every recorded call + answer of a few
   hundred histories against the EventQueue actions (code -> spec) and judges the pop runs of
   several thousand on KeyLe; `tlc -simulate` checks the invariants on the same constants.
T: boundary and random magnitudes up to 2^53 us are executed on the real class;
   operands and results go to JSON as limbs and TLC evaluates ErdosTime!RecFailed on
   every record.  Values just above 2^53 are run the same way and only reported
   (res.notes / extra), the property does not cover them.
"""
from __future__ import annotations

import collections
import json
import os
import re
import time

from . import mcgen, tlaval, tlc
from .c16_replay import CallReplayer
from .common import CheckResult, Scratch, parallel, rng
from .realobj import mk_task, ns

PID = "C16"
COUNTS = [-1001, -1000, -2, -1, 0, 1, 2, 999, 1000, 1001]
UNITS = ["us", "ms", "s"]
KS = [-1000, -3, -2, -1, 0, 1, 2, 3, 7, 1000]
FACTOR = {"us": 1, "ms": 1000, "s": 10**6}
LIMB_BASE, LIMB_N = 32768, 5
BOUND = 2**53  # the property speaks about magnitudes below 2^53 us

GRID_PAIR_LAWS = {
    "LawEqViaSub": "C16.eq",
    "LawLtViaSub": "C16.order",
    "LawTrichotomy": "C16.order",
    "LawOrderConsistent": "C16.order",
    "LawHash": "C16.hash",
    "LawAddUs": "C16.add",
    "LawSubUs": "C16.sub",
    "LawResultUnit": "C16.add",
    "LawAddComm": "C16.add",
    "LawSubInverse": "C16.sub",
}
GRID_ONE_LAWS = {"LawToExact": "C16.to", "LawToRefused": "C16.to_refused", "LawInvalid": "C16.invalid"}
GRID_TRIPLE_LAWS = {"LawTransitive": "C16.order", "LawAddAssoc": "C16.add", "LawAddMonotone": "C16.order"}

# EventType values: 1 TASK_CANCEL, 3 TASK_FINISHED, 5 TASK_RELEASE (carry a task);
# 6 UPDATE_WORKLOAD, 11 SCHEDULER_START, 13 SIMULATOR_END (no task)
def E(ty, task=0):
    return {"ty": ty, "task": task}


QUEUE_CFG = {
    # replayed path-exhaustively: all three branches of Event.__lt__, ties, mixed units
    "paths": {
        "Evs": [E(3, 1), E(3, 2), E(5, 1), E(11), E(11)],
        "Times": {(1, "ms"), (1000, "us"), (2, "ms")},
        "QTypes": {3, 11, 13},
        "MaxQ": 4,
    },
    # model-checked and replayed until every (state, call) pair of the graph was exercised
    "wide": {
        "Evs": [E(3, 1), E(3, 2), E(5, 2), E(11), E(11), E(13)],
        "Times": {(1, "ms"), (1000, "us"), (2000, "us")},
        "QTypes": {3, 5, 11, 13, 14},
        "MaxQ": 4,
    },
    # deep queues (7-11 pending events: heap levels 3-4).  Far too many states to enumerate:
    # random histories are executed on the real queue and the recorded calls + answers are
    # validated step by step against the spec (code -> spec), plus `tlc -simulate` on the spec
    "deep": {
        "Evs": [E(3, 1), E(3, 2), E(5, 1), E(5, 2), E(1, 1), E(7, 2), E(11), E(11), E(12), E(13), E(6), E(14)],
        "Times": {(x, "us") for x in (0, 5, 10, 25, 30, 50, 75, 100, 110, 120, 150, 200, 250, 300, 500, 750, 999,
                                      1000, 1001, 1500, 2000, 2500, 3000)} | {(1, "ms"), (2, "ms"), (3, "ms")},
        "QTypes": {0, 1, 3, 5, 6, 7, 11, 12, 13, 14},
        "MaxQ": 12,
    },
    # model-checked only (thorough tier)
    "wide_thorough": {
        "Evs": [E(3, 1), E(3, 2), E(5, 1), E(5, 2), E(1, 2), E(11), E(11), E(13), E(6)],
        "Times": {(1, "ms"), (1000, "us"), (2000, "us"), (1, "s")},
        "QTypes": {1, 3, 5, 6, 11, 13, 14},
        "MaxQ": 5,
    },
}
QUEUE_INV = ["TypeOK", "C16_PopEnabled", "C16_MinIsKeyMin", "C16_FloorBelowAll", "C16_NextOfType"]
QUEUE_PROP = ["C16_PopMin", "C16_PopOrder", "C16_TaskNameOrder"]
QUEUE_CLAUSE = {
    "C16_PopEnabled": "C16.pop_min",
    "C16_MinIsKeyMin": "C16.pop_min",
    "C16_PopMin": "C16.pop_min",
    "C16_FloorBelowAll": "C16.pop_order",
    "C16_PopOrder": "C16.pop_order",
    "C16_TaskNameOrder": "C16.pop_order",
    "C16_NextOfType": "C16.next_of_type",
}
TASK_NAME = {1: "t1", 2: "t2"}

# short JVM runs: C1 only, few GC threads (a dozen JVMs run side by side)
JOPTS = mcgen.LIB_OPT + ["-XX:TieredStopAtLevel=1", "-XX:ParallelGCThreads=2", "-Xmx2g"]
TRIVIAL_SPEC = "VARIABLE zz\nInit == zz = 0\nNext == UNCHANGED zz\n"


def _printed(r, tag):
    """Values of the `PrintT(<<tag, ...>>)` lines of a TLC run."""
    out = []
    pre = f'<<"{tag}"'
    for line in r.stdout.splitlines():
        if line.startswith(pre):
            out.append(tlaval.parse(line.strip())[1:])
    return out


def _spec_violation(res, r, what, clause_map, default):
    res.violate(
        clause_map.get(r.violation_name, default),
        f"TLC: {r.violation_kind} {r.violation_name} violated in {what}",
        {"trace": [[h, s] for h, s in r.trace]},
        key=f"spec:{what}:{r.violation_name}",
    )


# ---------------------------------------------------------------------------
# real EventTime helpers


def _unit(u):
    U = ns().EventTime.Unit
    return {"us": U.US, "ms": U.MS, "s": U.S}[u]


def _unit_name(u):
    U = ns().EventTime.Unit
    return {U.US: "us", U.MS: "ms", U.S: "s"}[u]


def mk_time(v):
    return ns().EventTime(int(v[0]), _unit(v[1]))


def un_time(t):
    """Real EventTime -> [count, unit] through the public properties."""
    if type(t) is not ns().EventTime or type(t.time) is not int:
        raise TypeError(f"not an EventTime with an integer count: {t!r}")
    return [t.time, _unit_name(t.unit)]


def _try(fn):
    try:
        return ["ok", fn()]
    except Exception as ex:  # noqa
        return ["raised", type(ex).__name__]


class _Tally:
    """Bounded collection of violations (first few per clause / op) + counts."""

    def __init__(self, res, per_key=2):
        self.res = res
        self.count = collections.Counter()
        self.per_key = per_key

    def bad(self, clause, op, what, detail, key):
        self.count[f"{clause}|{op}"] += 1
        if self.count[f"{clause}|{op}"] <= self.per_key:
            self.res.violate(clause, what, detail, key=key)


# ---------------------------------------------------------------------------
# M + R: the small grid


def _grid_defs(out_json, tier):
    def inv(name, guard, body):
        return f"I_{name} == ({guard}) => {body}"

    lines = [
        "VARIABLE c",
        "Grid == Counts \\X Units",
        "TGrid == TCounts \\X Units",
        'Init == c \\in ({<<"p", a, b>> : a \\in Grid, b \\in Grid}'
        ' \\cup {<<"o", a>> : a \\in Grid}'
        ' \\cup {<<"m", a, k>> : a \\in Grid, k \\in Ks}'
        ' \\cup {<<"t", a, b, d>> : a \\in TGrid, b \\in TGrid, d \\in TGrid})',
        "Next == UNCHANGED c",
    ]
    for law in GRID_PAIR_LAWS:
        lines.append(inv(law, 'c[1] = "p"', f"{law}(c[2], c[3])"))
    for law in GRID_ONE_LAWS:
        lines.append(inv(law, 'c[1] = "o"', f"{law}(c[2])"))
    lines.append(
        inv("LawMul", 'c[1] = "m" /\\ Abs(c[3]) * (Abs(Us(c[2])) \\div 1000) < 2147000', "LawMul(c[2], c[3])")
    )
    for law in GRID_TRIPLE_LAWS:
        lines.append(inv(law, 'c[1] = "t" /\\ Fits3(c[2], c[3], c[4])', f"{law}(c[2], c[3], c[4])"))
    lines.append(
        f'ASSUME JsonSerialize("{out_json}", ['
        "pairs |-> SetToSeq({Case2(a, b) : a \\in Grid, b \\in Grid}), "
        "ones |-> SetToSeq({Case1(a) : a \\in Grid}), "
        "muls |-> SetToSeq({CaseMul(a, k) : a \\in Grid, k \\in Ks}), "
        "triples |-> SetToSeq({Case3(t[1], t[2], t[3]) : "
        "t \\in {tt \\in TGrid \\X TGrid \\X TGrid : Fits3(tt[1], tt[2], tt[3])}})])"
    )
    return "\n".join(lines)


def _grid_job(scratch, tier):
    res = CheckResult(PID, tier)
    out_json = os.path.join(scratch, "grid_cases.json")
    invs = [f"I_{l}" for l in list(GRID_PAIR_LAWS) + list(GRID_ONE_LAWS) + ["LawMul"] + list(GRID_TRIPLE_LAWS)]
    defs = _grid_defs(out_json, tier)
    tcounts = [-1001, -1000, -1, 0, 2, 999, 1001] if tier == "quick" else COUNTS
    mod, cf = mcgen.write_mc(
        scratch,
        "ErdosTime",
        {},
        name="MC_ErdosTimeGrid",
        invariants=invs,
        init_next=("Init", "Next"),
        extends="TLC, Json, SequencesExt",
        extra_defs=f"Counts == {tlaval.to_tla(set(COUNTS))}\nTCounts == {tlaval.to_tla(set(tcounts))}\n"
        f"Ks == {tlaval.to_tla(set(KS))}\n" + defs,
    )
    r = tlc.run_tlc(mod, cf, workers=4, java_opts=JOPTS, timeout=1500)
    res.add_tlc("ErdosTime/grid-laws", r)
    claus = {f"I_{k}": v for k, v in {**GRID_PAIR_LAWS, **GRID_ONE_LAWS, **GRID_TRIPLE_LAWS, "LawMul": "C16.mul"}.items()}
    if not r.ok:
        _spec_violation(res, r, "ErdosTime grid laws", claus, "C16.order")
        return res
    with open(out_json) as f:
        cases = json.load(f)
    _replay_grid(res, cases)
    return res


GRID_OPS = {
    "eq": ("C16.eq", lambda A, B: A == B),
    "ne": ("C16.eq", lambda A, B: A != B),
    "lt": ("C16.order", lambda A, B: A < B),
    "le": ("C16.order", lambda A, B: A <= B),
    "gt": ("C16.order", lambda A, B: A > B),
    "ge": ("C16.order", lambda A, B: A >= B),
    "ha": ("C16.hash", lambda A, B: A.__hash__()),
    "hb": ("C16.hash", lambda A, B: B.__hash__()),
    "add": ("C16.add", lambda A, B: un_time(A + B)),
    "sub": ("C16.sub", lambda A, B: un_time(A - B)),
}
# the remaining grid operations, by the name used in violation details (for --replay)
GRID_OPS_MORE = {
    "hash_equal": lambda A, B: hash(A) == hash(B) and len({A, B}) == 1,
    "hash_of_us": lambda A: hash(A) == hash(A.time * FACTOR[_unit_name(A.unit)]),
    "is_invalid": lambda A: A.is_invalid(),
    "mul": lambda A, k: un_time(A * k),
    "add_assoc_left": lambda A, B, C: un_time((A + B) + C),
    "add_assoc_right": lambda A, B, C: un_time(A + (B + C)),
}


def _replay_grid(res, cases):
    """Execute every dumped case on the real EventTime and compare with the spec's answer."""
    tally = _Tally(res)
    n = collections.Counter()
    ops2 = GRID_OPS

    def check(clause, op, operands, exp, got):
        n[clause] += 1
        if got != ["ok", exp] or (isinstance(exp, bool) and got[1] is not exp):
            tally.bad(
                clause,
                op,
                f"EventTime {op} on {operands}: spec expects {exp}, code gives {got}",
                {"op": op, "operands": operands, "expected": exp, "got": got},
                key=f"grid:{op}:{json.dumps(operands)}",
            )

    for c in cases["pairs"]:
        A, B = mk_time(c["a"]), mk_time(c["b"])
        for op, (clause, fn) in ops2.items():
            check(clause, op, [c["a"], c["b"]], c[op], _try(lambda: fn(A, B)))
        if c["eq"]:  # equal values must be interchangeable as dict / set keys
            check("C16.hash", "hash_equal", [c["a"], c["b"]], True, _try(lambda: hash(A) == hash(B) and len({A, B}) == 1))
        check("C16.hash", "hash_of_us", [c["a"]], True, _try(lambda: hash(A) == hash(c["ha"])))
    for c in cases["ones"]:
        A = mk_time(c["a"])
        check("C16.invalid", "is_invalid", [c["a"]], c["invalid"], _try(A.is_invalid))
        for u in UNITS:
            e = c["to"][u]
            got = _try(lambda: un_time(A.to(_unit(u))))
            if e["ok"]:
                check("C16.to", "to", [c["a"], u], e["val"], got)
            else:
                n["C16.to_refused"] += 1
                if got != ["raised", "ValueError"]:
                    tally.bad(
                        "C16.to_refused",
                        "to",
                        f"EventTime {c['a']}.to({u}) must be refused with ValueError (coarser unit), code gives {got}",
                        {"op": "to", "operands": [c["a"], u], "expected": "ValueError", "got": got},
                        key=f"grid:to_refused:{json.dumps([c['a'], u])}",
                    )
    for c in cases["muls"]:
        A = mk_time(c["a"])
        check("C16.mul", "mul", [c["a"], c["k"]], c["mul"], _try(lambda: un_time(A * c["k"])))
    for c in cases["triples"]:
        A, B, C = mk_time(c["a"]), mk_time(c["b"]), mk_time(c["c"])
        check("C16.add", "add_assoc_left", [c["a"], c["b"], c["c"]], c["l"], _try(lambda: un_time((A + B) + C)))
        check("C16.add", "add_assoc_right", [c["a"], c["b"], c["c"]], c["r"], _try(lambda: un_time(A + (B + C))))
    Z, I = ns().EventTime.zero(), ns().EventTime.invalid()
    check("C16.invalid", "zero()", [], [0, "us"], _try(lambda: un_time(Z)))
    check("C16.invalid", "invalid()", [], [-1, "us"], _try(lambda: un_time(I)))
    res.traces_validated += sum(len(v) for v in cases.values())
    res.extra["grid_cases"] = {k: len(v) for k, v in cases.items()}
    res.extra["grid_checks_per_clause"] = dict(n)
    res.extra["grid_mismatches"] = dict(tally.count)
    c = cases["pairs"][len(cases["pairs"]) // 3]
    res.samples.append({"grid_pair_case": c, "verdict": "code agrees" if not tally.count else "see violations"})
    res.samples.append({"grid_to_case": cases["ones"][len(cases["ones"]) // 2]})


# ---------------------------------------------------------------------------
# M: limb operators against native integers


def _limb_job(scratch, tier, which):
    res = CheckResult(PID, tier)
    if which == "tiny":
        # base 3 (4), 5 limbs: 0..242 (0..1023); x, y in -70..70 (-340..340), |k| < base: every result fits, exhaustive
        rng_ = 70 if tier == "quick" else 340
        consts = {"LimbBase": 3 if tier == "quick" else 4, "LimbN": 5}
        defs = (
            f"VARIABLE c\nInit == c \\in ((0 - {rng_})..{rng_}) \\X ((0 - {rng_})..{rng_})\nNext == UNCHANGED c\n"
            "I_Add == LimbLawAdd(c[1], c[2])\nI_Sub == LimbLawSub(c[1], c[2])\nI_Cmp == LimbLawCmp(c[1], c[2])\n"
            "I_Mul == (Abs(c[2]) < LimbBase) => LimbLawMul(c[1], c[2])\n"
            "I_Canon == LimbLawCanon(c[1])\n"
            "I_Fits == LimbAddFits(ToLimbs(c[1]), ToLimbs(c[2])) /\\ (Abs(c[2]) < LimbBase => LimbMulSmallFits(ToLimbs(c[1]), c[2]))\n"
        )
    else:
        vals = set()
        for p in [0, 1, 2, 999, 1000, 1001, 32767, 32768, 32769, 65535, 65536, 999999, 10**6, 2**30 - 32768,
                  32767 * 32768, 2**30 - 2, 2**30 - 1, 123456789, 1073709057, 536870912]:
            vals |= {p, -p}
        ks = {-32767, -32766, -1000, -7, -1, 0, 1, 2, 1000, 32766, 32767}
        consts = {}
        defs = (
            f"VARIABLE c\nVals == {tlaval.to_tla(vals)}\nSmall == {tlaval.to_tla(ks)}\n"
            'Init == c \\in ({<<"a", x, y>> : x \\in Vals, y \\in Vals} \\cup {<<"m", x, k>> : x \\in Vals, k \\in Small})\n'
            "Next == UNCHANGED c\n"
            'I_Add == c[1] = "a" => LimbLawAdd(c[2], c[3])\nI_Sub == c[1] = "a" => LimbLawSub(c[2], c[3])\n'
            'I_Cmp == c[1] = "a" => LimbLawCmp(c[2], c[3])\n'
            'I_Mul == (c[1] = "m" /\\ Abs(c[2]) <= 2147483647 \\div (IF c[3] = 0 THEN 1 ELSE Abs(c[3]))) => LimbLawMul(c[2], c[3])\n'
            "I_Canon == LimbLawCanon(c[2])\n"
            "I_Fits == TRUE\n"
        )
    mod, cf = mcgen.write_mc(
        scratch,
        "ErdosTime",
        consts,
        name=f"MC_ErdosTimeLimbs_{which}",
        invariants=["I_Add", "I_Sub", "I_Cmp", "I_Mul", "I_Canon", "I_Fits"],
        init_next=("Init", "Next"),
        extends="TLC",
        extra_defs=defs,
    )
    r = tlc.run_tlc(mod, cf, workers=4, java_opts=JOPTS, timeout=1500)
    res.add_tlc(f"ErdosTime/limbs-{which}", r)
    if not r.ok:
        # the limb arithmetic is part of the machinery: a wrong operator is not a verdict about /repo
        raise tlc.TLCMachineryError(
            f"limb operators disagree with native integers ({which}): {r.violation_name} {r.trace[:1]}"
        )
    return res


# ---------------------------------------------------------------------------
# T: recorded calls on big magnitudes, validated by TLC


def limbs(n):
    s = (n > 0) - (n < 0)
    a = abs(n)
    m = []
    for _ in range(LIMB_N):
        m.append(a % LIMB_BASE)
        a //= LIMB_BASE
    if a:
        raise OverflowError(f"{n} does not fit {LIMB_N} limbs")
    return {"s": s, "m": m}


def ltime(v):
    return {"c": limbs(v[0]), "u": v[1]}


def _res(fn, conv):
    """Observed outcome of a call as {ok, v, err} (v converted for TLC)."""
    try:
        return {"ok": True, "v": conv(fn()), "err": ""}
    except Exception as ex:  # noqa
        return {"ok": False, "v": 0, "err": type(ex).__name__}


def _bool(x):
    if type(x) is not bool:
        raise TypeError("not a bool")
    return x


def _int_limbs(x):
    if type(x) is not int:
        raise TypeError("not an int")
    return limbs(x)


def _time_limbs(t):
    return ltime(un_time(t))


def rec_pair(i, a, b):
    A, B = mk_time(a), mk_time(b)
    return {
        "id": i, "kind": "pair", "a": ltime(a), "b": ltime(b),
        "eq": _res(lambda: A == B, _bool), "ne": _res(lambda: A != B, _bool), "eqr": _res(lambda: B == A, _bool),
        "lt": _res(lambda: A < B, _bool), "le": _res(lambda: A <= B, _bool),
        "gt": _res(lambda: A > B, _bool), "ge": _res(lambda: A >= B, _bool),
        "ha": _res(A.__hash__, _int_limbs), "hb": _res(B.__hash__, _int_limbs),
        "hsame": _res(lambda: hash(A) == hash(B), _bool),
        "add": _res(lambda: A + B, _time_limbs), "sub": _res(lambda: A - B, _time_limbs),
    }  # fmt: skip


def rec_one(i, a):
    A = mk_time(a)
    return {
        "id": i, "kind": "one", "a": ltime(a),
        "to": {u: _res(lambda: A.to(_unit(u)), _time_limbs) for u in UNITS},
        "invalid": _res(A.is_invalid, _bool),
    }  # fmt: skip


def rec_mul(i, a, k):
    A = mk_time(a)
    return {"id": i, "kind": "mul", "a": ltime(a), "k": k, "mul": _res(lambda: A * k, _time_limbs)}


def rec_int(i, x, y, k):
    return {
        "id": i, "kind": "int", "x": limbs(x), "y": limbs(y), "k": k,
        "sum": limbs(x + y), "diff": limbs(x - y), "cmp": (x > y) - (x < y), "prod": limbs(x * k),
    }  # fmt: skip


def reps(x):
    """All <<count, unit>> representations of x microseconds."""
    out = [(x, "us")]
    if x % 1000 == 0:
        out.append((x // 1000, "ms"))
    if x % 10**6 == 0:
        out.append((x // 10**6, "s"))
    return out


def boundary_us():
    top = BOUND - 1
    pos = [0, 1, 2, 999, 1000, 1001, 32767, 32768, 999999, 10**6, 10**6 + 1, 2**30, 2**31 - 1, 2**31, 2**31 + 1,
           2**32 - 1, 2**32 + 1, 10**9, 3 * 10**9, 10**12, 2**45 - 1, 2**45, 2**45 + 1, 2**52, 2**52 + 1,
           top - 1, top, top // 1000 * 1000, top // 10**6 * 10**6, (top // 10**6 - 1) * 10**6,
           2**31 * 1000, 2**31 * 10**6, (2**31 + 1) * 1000, (2**31 - 1) * 10**6, 4 * 10**15 + 5 * 10**8,
           6 * 10**15 + 123456789]  # fmt: skip
    return sorted({p for p in pos} | {-p for p in pos})


def random_time(rnd):
    """A time value with |us| < 2^53, magnitude spread over all bit lengths, any unit."""
    u = rnd.choice(UNITS)
    lim = (BOUND - 1) // FACTOR[u]
    bits = rnd.randint(1, lim.bit_length())
    c = min(lim, rnd.getrandbits(bits))
    if rnd.random() < 0.15:
        c = c // 1000 * 1000  # values that also exist in a coarser unit
    return (rnd.choice([-1, 1]) * c, u)


def gen_calls(tier, rnd):
    """The calls to record inside the bound (gating): ("pair", a, b) / ("one", a) / ("mul", a, k) /
    ("int", x, y, k), numbered from 1."""
    calls = []
    bvals = [v for x in boundary_us() for v in reps(x)]
    n_bpairs, n_rand_pairs, n_rand_one, n_int = (3500, 3500, 700, 500) if tier == "quick" else (10**9, 150000, 20000, 20000)
    pairs = [(a, b) for a in bvals for b in bvals]
    rnd.shuffle(pairs)
    pairs = pairs[:n_bpairs]
    for _ in range(n_rand_pairs):
        a = random_time(rnd)
        r = rnd.random()
        if r < 0.25:  # the same instant in another unit / a neighbour
            us = a[0] * FACTOR[a[1]] + rnd.choice([0, 0, 1, -1, 1000, -1000])
            if abs(us) >= BOUND:
                us = a[0] * FACTOR[a[1]]
            b = rnd.choice(reps(us))
        elif r < 0.4:
            b = rnd.choice(bvals)
        else:
            b = random_time(rnd)
        pairs.append((a, b) if rnd.random() < 0.5 else (b, a))
    calls += [("pair", a, b) for a, b in pairs]
    calls += [("one", a) for a in list(bvals) + [random_time(rnd) for _ in range(n_rand_one)]]
    ks = [-32767, -1000, -3, -1, 0, 1, 2, 7, 1000, 32767]
    for a in bvals + [random_time(rnd) for _ in range(n_rand_one)]:
        calls += [("mul", a, k) for k in rnd.sample(ks, 2 if tier == "quick" else 4)]
    for _ in range(n_int):
        x = rnd.choice([-1, 1]) * rnd.getrandbits(rnd.randint(1, 56))
        y = rnd.choice([-1, 1]) * rnd.getrandbits(rnd.randint(1, 56))
        if rnd.random() < 0.2:
            y = x + rnd.choice([0, 1, -1, -2 * x])
        calls.append(("int", x, y, rnd.choice(ks)))
    return [(i + 1,) + c for i, c in enumerate(calls)]


def gen_above_bound():
    """Calls with magnitudes at and just above 2^53 us: reported, never gating."""
    calls = []
    vals = []
    for x in [BOUND, BOUND + 1, BOUND + 2, BOUND + 3, 2**54 + 1, 2**54 + 2, 2**56 + 1000, 2**57 + 8000,
              (2**59 // 10**6 + 1) * 10**6, (2**60 // 10**6 + 7) * 10**6, (2**57 // 1000 + 3) * 1000]:  # fmt: skip
        for s in (1, -1):
            vals += reps(s * x)
    calls += [("one", a) for a in vals]
    for a in vals:
        for b in [(a[0] * FACTOR[a[1]], "us"), (a[0] * FACTOR[a[1]] - 1, "us"), (1, "us"), (1, "s")]:
            calls.append(("pair", a, b))
    return [(ABOVE_ID0 + i,) + c for i, c in enumerate(calls)]


ABOVE_ID0 = 10**8  # record ids from here on are the above-the-bound probes (never judged)
_REC = {"pair": rec_pair, "one": rec_one, "mul": rec_mul, "int": rec_int}


def _call_desc(c):
    kind = c[1]
    if kind == "pair":
        return {"kind": kind, "a": list(c[2]), "b": list(c[3])}
    if kind == "one":
        return {"kind": kind, "a": list(c[2])}
    if kind == "mul":
        return {"kind": kind, "a": list(c[2]), "k": c[3]}
    return {"kind": kind, "x": c[2], "y": c[3], "k": c[4]}


def _records_job(scratch, tier, name, calls):
    """Execute the calls on the real class, write the records (limbs) as JSON and let one TLC run
    evaluate ErdosTime!RecFailed on every record."""
    res = CheckResult(PID, tier)
    ns()
    recs = [_REC[c[1]](c[0], *c[2:]) for c in calls]
    path = os.path.join(scratch, f"records_{name}.json")
    with open(path, "w") as f:
        json.dump(recs, f)
    # one short line per (record, clause): TLC wraps long values over several lines
    defs = (
        f'Records == JsonDeserialize("{path}")\n'
        "Failed == [i \\in 1..Len(Records) |-> RecFailed(Records[i])]\n"
        'ASSUME \\A i \\in 1..Len(Records) : \\A c \\in Failed[i] : PrintT(<<"@@fail", Records[i].id, c>>)\n'
        'ASSUME PrintT(<<"@@checked", Len(Records), Cardinality({i \\in 1..Len(Records) : Failed[i] # {}})>>)\n'
        + TRIVIAL_SPEC
    )
    mod, cf = mcgen.write_mc(
        scratch, "ErdosTime", {}, name=f"MC_ErdosTimeRecords_{name}", init_next=("Init", "Next"),
        extends="TLC, Json, FiniteSets", extra_defs=defs,
    )  # fmt: skip
    r = tlc.run_tlc(mod, cf, workers=1, java_opts=JOPTS, timeout=3000, coverage=False)
    if not r.ok:
        raise tlc.TLCMachineryError(f"record validation run failed: {r.violation_kind} {r.violation_name}\n{r.stdout[-2000:]}")
    checked = _printed(r, "@@checked")
    if not checked or checked[0][0] != len(recs):
        raise tlc.TLCMachineryError(f"record validation: TLC saw {checked} of {len(recs)} records")
    by_id = {c[0]: (c, rec) for c, rec in zip(calls, recs)}
    failed = collections.defaultdict(list)
    for rid, clause in _printed(r, "@@fail"):
        failed[rid].append(clause)
    if len(failed) != checked[0][1]:
        raise tlc.TLCMachineryError(f"record validation: parsed {len(failed)} failing records, TLC counted {checked[0][1]}")
    fails = []
    for rid, clauses in failed.items():
        c, rec = by_id[rid]
        kept = sum(1 for f in fails if f["record"] is not None and (f["id"] >= ABOVE_ID0) == (rid >= ABOVE_ID0))
        fails.append({"id": rid, "clauses": sorted(clauses), "call": _call_desc(c), "record": rec if kept < 40 else None})
    res.extra["record_batches"] = [{"batch": name, "records": len(recs), "failed": len(fails), "tlc_wall_s": round(r.wall_s, 1)}]
    res.extra["_fails"] = {name: fails}
    res.extra["_rec_sample"] = [{"call": _call_desc(calls[len(calls) // 7]), "record": recs[len(calls) // 7]}]
    return res


# ---------------------------------------------------------------------------
# EventQueue: M (TLC) and R (replay of the dumped graph)


def _queue_consts(cfg):
    return {
        "Evs": cfg["Evs"],
        "Times": {tuple(t) for t in cfg["Times"]},
        "QTypes": set(cfg["QTypes"]),
        "MaxQ": cfg["MaxQ"],
    }


def _queue_mc(scratch, tier, cname, dump):
    """TLC on EventQueue with the named constants; optionally dumps the state graph.
    Returns (partial result, dot path or None, key table)."""
    res = CheckResult(PID, tier)
    cfg = QUEUE_CFG[cname]
    mod, cf = mcgen.write_mc(
        scratch,
        "EventQueue",
        _queue_consts(cfg),
        name=f"MC_EventQueue_{cname}",
        invariants=QUEUE_INV,
        properties=QUEUE_PROP,
        extra_defs='ASSUME \\A i \\in Ids, t \\in Times : PrintT(<<"@@key", i, t, KeyTable[i][t]>>)',
    )
    dot = os.path.join(scratch, f"eventqueue_{cname}") if dump else None
    r = tlc.run_tlc(mod, cf, workers=4 if tier == "quick" else 8, dump_dot=dot, java_opts=JOPTS, timeout=3000)
    res.add_tlc(f"EventQueue/{cname}", r)
    if not r.ok:
        _spec_violation(res, r, f"EventQueue ({cname} constants)", QUEUE_CLAUSE, "C16.pop_min")
        return res, None, {}
    keytab = {}
    for i, t, k in _printed(r, "@@key"):
        keytab[(i, tuple(t))] = tuple(k)
    if len(keytab) != len(cfg["Evs"]) * len(cfg["Times"]):
        raise tlc.TLCMachineryError(f"EventQueue key table: parsed {len(keytab)} entries")
    return res, (dot + ".dot") if dump else None, keytab


class QueueAdapter:
    """Real EventQueue holding real Event objects.  The harness knows which time it gave
    to which object (its own inputs); everything about the queue comes from the calls."""

    def __init__(self, cfg, keytab):
        self.cfg = cfg
        self.keytab = keytab
        self.order_violations = []
        self.pops_after = collections.Counter()
        N = ns()
        import simulator

        self.sim = simulator
        self.tasks = {k: mk_task(n) for k, n in TASK_NAME.items()}
        names = [self.tasks[k].unique_name for k in sorted(self.tasks)]
        assert names == sorted(names) and len(set(names)) == len(names), names
        self.types = {e["ty"]: simulator.EventType(e["ty"]) for e in cfg["Evs"]}
        for ty in cfg["QTypes"]:
            self.types[ty] = simulator.EventType(ty)
        self.N = N

    def fresh(self):
        self.q = self.sim.EventQueue()
        self.obj = {}  # spec id -> the Event object created last for it
        self.rev = {}  # id(object) -> spec id
        self.keep = []  # keep objects alive so that id() stays unique
        self.tm = {}
        self.last = None  # (key, label) of the last pop if no add / retime since
        self.trail = []
        self.last_mut = "Init"

    def _event(self, i, t):
        d = self.cfg["Evs"][i - 1]
        ev = self.sim.Event(self.types[d["ty"]], mk_time(t), task=self.tasks[d["task"]] if d["task"] else None)
        self.obj[i] = ev
        self.rev[id(ev)] = i
        self.keep.append(ev)
        return ev

    def call_of(self, name, args):
        if name in ("Add", "Retime"):
            return name, (args[0], tuple(args[1]))
        if name in ("Remove", "RemoveRefused"):
            return "Remove", (args[0],)
        if name in ("Pop", "PopRefused"):
            return "Pop", ()
        if name in ("Peek", "PeekNone"):
            return "Peek", ()
        if name in ("NextOfType", "NextOfTypeNone"):
            return "NextOfType", (args[0],)
        raise AssertionError(name)

    def _id(self, ev):
        i = self.rev.get(id(ev))
        if i is None:
            raise AssertionError(f"the queue returned an object that was never added: {ev!r}")
        return i

    def invoke(self, call, inp):
        out = self._invoke(call, inp)
        self.trail.append(out)
        return out

    def after_divergence(self, call, got):
        """The queue answered a pop with an element the spec does not allow: keep popping to see
        whether the real pop sequence also goes backwards in (time, type)."""
        if call[0] != "Pop":
            return
        for _ in range(len(self.cfg["Evs"]) + 1):
            try:
                if self.invoke("Pop", ())[0] != "Pop":
                    return
            except Exception:  # noqa
                return

    def _order_violation(self, key, label):
        from .c16_replay import fmt

        self.order_violations.append(
            {"path": [fmt(n, a) for n, a in self.trail] + [label], "first": self.last[1],
             "first_key_us_type": list(self.last[0][:2]), "then": label, "then_key_us_type": list(key[:2])}
        )  # fmt: skip

    def _invoke(self, call, inp):
        if call == "Add":
            i, t = inp
            self.q.add_event(self._event(i, t))
            self.tm[i] = tuple(t)
            self.last = None
            self.last_mut = "Add"
            return "Add", [i, list(t)]
        if call == "Retime":
            i, t = inp
            self.obj[i]._time = mk_time(t)  # the in-place edit simulator.py performs on cached events
            self.q.reheapify()
            self.tm[i] = tuple(t)
            self.last = None
            self.last_mut = "Retime"
            return "Retime", [i, list(t)]
        if call == "Remove":
            (i,) = inp
            ev = self.obj.get(i) or self._event(i, sorted(self.cfg["Times"])[0])
            try:
                self.q.remove_event(ev)
            except ValueError:
                return "RemoveRefused", [i]
            self.last_mut = "Remove"
            return "Remove", [i]
        if call == "Pop":
            try:
                ev = self.q.next()
            except IndexError:
                return "PopRefused", []
            i = self._id(ev)
            self.pops_after[self.last_mut] += 1
            if self.keytab is not None:
                key = self.keytab[(i, self.tm[i])]
                if self.last is not None and key[:2] < self.last[0][:2] and len(self.order_violations) < 50:
                    self._order_violation(key, f"Pop({i})")
                self.last = (key, f"Pop({i})")
            return "Pop", [i]
        if call == "Peek":
            ev = self.q.peek()
            return ("PeekNone", []) if ev is None else ("Peek", [self._id(ev)])
        if call == "NextOfType":
            (ty,) = inp
            ev = self.q.get_next_event_of_type(self.types[ty])
            return ("NextOfTypeNone", [ty]) if ev is None else ("NextOfType", [ty, self._id(ev)])
        raise AssertionError(call)

    def project(self):
        return {"len": len(self.q)}

    def abstract(self, state):
        return {"len": state["obs"]["len"]}


def _queue_clause(d):
    """Clause a divergence of the queue replay is reported under.  The statement has three
    parts: events come out in (time, type priority) order [pop_min / pop_order], also after
    events were re-timed [retime] or removed [remove]; get_next_event_of_type is the simulator's
    other ordered read [next_of_type].  A wrong answer of pop / peek is filed by the history it
    happened on: the latest Retime / Remove in it, pop_min if it has neither."""
    name = (d.label or "").split("(")[0]
    if name.startswith("NextOfType"):
        return "C16.next_of_type"
    if name.startswith("Remove"):
        return "C16.remove"
    if name.startswith("Retime"):
        return "C16.retime"
    hist = [p.split("(")[0] for p in d.path[:-1]]
    hist = [p for p in hist if p in ("Retime", "Remove")]
    if name.startswith(("Pop", "Peek")) and hist:
        return {"Retime": "C16.retime", "Remove": "C16.remove"}[hist[-1]]
    return "C16.pop_min"


def _queue_verdicts(res, divs, orders):
    """One violation per (clause, failing call): the shortest diverging path found."""
    best = {}
    for d in divs:
        k = (d["clause"], d["kind"], (d["label"] or "").split("(")[0])
        cand = (len(d["path"]), d["path"])
        if k not in best or cand < (len(best[k]["path"]), best[k]["path"]):
            best[k] = d
    for (clause, kind, name), d in sorted(best.items()):
        hist, last = d["path"][:-1], d["path"][-1] if d["path"] else d["label"]
        if kind == "outcome":
            what = f"after {hist} the real queue answered {d['got']}; the spec allows only {d['expected']}"
            if d.get("first_in_time_and_type"):
                what += (
                    " [the answer is first in (time, type priority); only the task-name tie-break of "
                    "Event.__lt__ (conv.task_name_tiebreak) is not respected]"
                )
        elif kind == "state":
            what = f"after {hist} + {last}: projection {d['got']} but the spec state has {d['expected']}"
        else:
            what = f"after {hist}: {last} raised {d['error']}"
        res.violate(clause, f"EventQueue ({d['model']}): {what}", d, key=f"EventQueue:{clause}:{';'.join(d['path'])}")
    if orders:
        v = min(orders, key=lambda o: (len(o["path"]), o["path"]))
        res.violate(
            "C16.pop_order",
            f"EventQueue ({v['model']}): successive pops went backwards in (time us, type): {v['first']} "
            f"{v['first_key_us_type']} then {v['then']} {v['then_key_us_type']} on history {v['path']}",
            v,
            key=f"EventQueue:C16.pop_order:{';'.join(v['path'])}",
        )


# ---------------------------------------------------------------------------
# EventQueue, deep queues: T (recorded histories of the real queue validated by TLC)


def _lab(name, args):
    from .c16_replay import fmt

    return fmt(name, args)


def gen_queue_traces(cname, n, rnd):
    """n random histories on a real EventQueue: fill to 7..11 pending events (adds with a few
    re-timings), disturb the middle (removals that avoid the root and the event added last
    where possible, re-timings, a late add), then drain to empty; once or twice per history.
    Returns [[(name, args) outcome per call]]."""
    cfg = QUEUE_CFG[cname]
    ad = QueueAdapter(cfg, None)
    ids = list(range(1, len(cfg["Evs"]) + 1))
    times = sorted(cfg["Times"])
    qtypes = sorted(cfg["QTypes"])
    traces = []
    for _ in range(n):
        ad.fresh()
        steps, inq = [], []

        def do(call, inp):
            try:
                out = ad.invoke(call, inp)
            except Exception as ex:  # noqa: an answer the spec has no action for
                out = ("Raised", [call, repr(ex)[:120]])
            steps.append((out[0], list(out[1])))
            if out[0] == "Add":
                inq.append(out[1][0])
            elif out[0] in ("Remove", "Pop") and out[1][0] in inq:
                inq.remove(out[1][0])
            return out

        def observe():
            if rnd.random() < 0.5:
                do("Peek", ())
            else:
                do("NextOfType", (rnd.choice(qtypes),))

        def retime():
            i = rnd.choice(inq)
            do("Retime", (i, rnd.choice([t for t in times if t != ad.tm[i]])))  # a different value (maybe the same instant)

        def add():
            absent = [i for i in ids if i not in inq]
            if absent:
                do("Add", (rnd.choice(absent), rnd.choice(times)))

        def remove_middle():
            top = do("Peek", ())
            root = top[1][0] if top[0] == "Peek" else None
            cands = [i for i in inq if i != root and i != inq[-1]] or list(inq)
            if cands:
                do("Remove", (rnd.choice(cands),))

        for _round in range(rnd.randint(1, 2)):
            target = rnd.randint(7, min(cfg["MaxQ"], len(ids)) - 1)
            while len(inq) < target and len(steps) < 150:
                r = rnd.random()
                if r < 0.78 or len(inq) < 2:
                    add()
                elif r < 0.92:
                    retime()
                else:
                    observe()
            # the middle of the queue is disturbed; a removal / re-timing that leaves the heap broken
            # is only visible if nothing re-heapifies before the drain, so most rounds use one kind
            mode = rnd.choice(["remove", "remove", "retime", "mixed", "remove+add"])
            for _k in range(rnd.randint(1, 4)):
                r = rnd.random()
                if mode == "remove" or (mode == "remove+add" and r < 0.6) or (mode == "mixed" and r < 0.5):
                    if inq:
                        remove_middle()
                elif mode == "retime" or (mode == "mixed" and r < 0.85):
                    if inq:
                        retime()
                else:
                    add()
            if rnd.random() < 0.3:
                absent = [i for i in ids if i not in inq]
                if absent:
                    do("Remove", (rnd.choice(absent),))
            while len(steps) < 300:
                if rnd.random() < 0.15:
                    observe()
                if len(inq) > 2 and rnd.random() < 0.06:
                    remove_middle()
                if do("Pop", ())[0] != "Pop":
                    break
            do("Peek", ())
        traces.append(steps)
    return traces


def _trace_json(steps):
    out = []
    for name, args in steps:
        s = {"op": name, "i": 0, "ty": 0, "t": [0, "us"]}
        if name in ("Add", "Retime"):
            s["i"], s["t"] = args[0], list(args[1])
        elif name in ("Remove", "RemoveRefused", "Pop", "Peek"):
            s["i"] = args[0]
        elif name == "NextOfType":
            s["ty"], s["i"] = args
        elif name == "NextOfTypeNone":
            s["ty"] = args[0]
        out.append(s)
    return out


TRACE_DEFS = """
Traces == JsonDeserialize("%s")
VARIABLES tid, pos
TStep(s) ==
    \\/ (s.op = "Add" /\\ Add(s.i, s.t))
    \\/ (s.op = "Retime" /\\ Retime(s.i, s.t))
    \\/ (s.op = "Remove" /\\ Remove(s.i))
    \\/ (s.op = "RemoveRefused" /\\ RemoveRefused(s.i))
    \\/ (s.op = "Pop" /\\ Pop(s.i))
    \\/ (s.op = "PopRefused" /\\ PopRefused)
    \\/ (s.op = "Peek" /\\ Peek(s.i))
    \\/ (s.op = "PeekNone" /\\ PeekNone)
    \\/ (s.op = "NextOfType" /\\ NextOfType(s.ty, s.i))
    \\/ (s.op = "NextOfTypeNone" /\\ NextOfTypeNone(s.ty))
TraceStep == /\\ pos >= 0 /\\ pos < Len(Traces[tid])
             /\\ TStep(Traces[tid][pos + 1])
             /\\ pos' = pos + 1 /\\ tid' = tid
\\* the recorded answer is not an enabled action of the spec: report where, and what a pop may return
Stuck == /\\ pos >= 0 /\\ pos < Len(Traces[tid]) /\\ ~ENABLED TraceStep
         /\\ PrintT(<<"@@stuck", tid, pos + 1>>)
         /\\ PrintT(<<"@@allowed", tid, {e.id : e \\in MinSet(q)}>>)
         /\\ pos' = 0 - 1 /\\ tid' = tid /\\ UNCHANGED vars
TInit == Init /\\ tid \\in 1..Len(Traces) /\\ pos = 0
TNext == TraceStep \\/ Stuck
\\* maximal runs of pops without an add / re-timing in between, of every recorded history: successive
\\* pops must not go backwards in (time, type priority)
Runs == JsonDeserialize("%s")
PoppedEv(p) == [tm |-> p.t, ty |-> Evs[p.i].ty]
ASSUME \\A k \\in 1..Len(Runs) : \\A j \\in 1..(Len(Runs[k].pops) - 1) :
          KeyLe(PoppedEv(Runs[k].pops[j]), PoppedEv(Runs[k].pops[j + 1]))
          \\/ PrintT(<<"@@backwards", Runs[k].h, Runs[k].pops[j + 1].p,
                       ET!Us(Runs[k].pops[j].t), Evs[Runs[k].pops[j].i].ty,
                       ET!Us(Runs[k].pops[j + 1].t), Evs[Runs[k].pops[j + 1].i].ty>>)
ASSUME PrintT(<<"@@runs", Len(Runs)>>)
"""


class _Div:
    def __init__(self, label, path):
        self.label, self.path = label, path


def _pop_runs(h, steps):
    """Maximal runs of >= 2 pops with no add / re-timing in between: [{h, pops: [{i, t, p}]}] (p = step
    number of the pop), plus statistics."""
    runs, cur, tm = [], [], {}
    for j, (n_, a) in enumerate(steps):
        if n_ in ("Add", "Retime"):
            tm[a[0]] = list(a[1])
            if len(cur) > 1:
                runs.append({"h": h, "pops": cur})
            cur = []
        elif n_ == "Pop" and a[0] in tm:
            cur.append({"i": a[0], "t": tm[a[0]], "p": j + 1})
    if len(cur) > 1:
        runs.append({"h": h, "pops": cur})
    return runs


def _queue_traces_job(scratch, tier, cname, name, n_full, n_order, salt):
    """Execute random deep histories on the real queue.  TLC (a) accepts or rejects every recorded
    step of the first n_full histories (EventQueue actions, the answer is a parameter) and (b) judges
    the pop runs of all n_full + n_order histories on the (time, type priority) key."""
    res = CheckResult(PID, tier)
    cfg = QUEUE_CFG[cname]
    traces = gen_queue_traces(cname, n_full + n_order, rng(f"c16:traces:{salt}"))
    full = traces[:n_full]
    path = os.path.join(scratch, f"queue_traces_{name}.json")
    with open(path, "w") as f:
        json.dump([_trace_json(t) for t in full], f)
    runs = [r_ for h, t in enumerate(traces) for r_ in _pop_runs(h + 1, t)]
    rpath = os.path.join(scratch, f"queue_runs_{name}.json")
    with open(rpath, "w") as f:
        json.dump(runs, f)
    mod, cf = mcgen.write_mc(
        scratch, "EventQueue", _queue_consts(cfg), name=f"MC_EventQueueTrace_{name}", init_next=("TInit", "TNext"),
        invariants=["TypeOK", "C16_FloorBelowAll", "C16_MinIsKeyMin"], properties=["C16_PopOrder"],
        extends="Json", extra_defs=TRACE_DEFS % (path, rpath),
    )  # fmt: skip
    r = tlc.run_tlc(mod, cf, workers=1, java_opts=JOPTS, timeout=3000, coverage=False)
    res.add_tlc(f"EventQueue/{cname}-traces-{name}", r)
    if not r.ok:
        _spec_violation(res, r, f"EventQueue trace validation ({cname})", QUEUE_CLAUSE, "C16.pop_min")
        return res
    seen_runs = _printed(r, "@@runs")
    if not seen_runs or seen_runs[0][0] != len(runs):
        raise tlc.TLCMachineryError(f"pop-run validation: TLC saw {seen_runs} of {len(runs)} runs")
    stuck = {tid: pos for tid, pos in _printed(r, "@@stuck")}
    allowed = {tid: sorted(ids) for tid, ids in _printed(r, "@@allowed")}
    expect_states = sum((stuck[k + 1] + 1) if k + 1 in stuck else len(t) + 1 for k, t in enumerate(full))
    if r.distinct != expect_states:
        raise tlc.TLCMachineryError(f"trace validation: TLC found {r.distinct} states, expected {expect_states} ({len(stuck)} stuck)")

    def labels_of(steps):
        return [(f"{a[0]} raised {a[1]}" if n_ == "Raised" else _lab(n_, a)) for n_, a in steps]

    divs, orders = [], []
    backwards = sorted({tuple(b) for b in _printed(r, "@@backwards")})
    for h, p, us1, ty1, us2, ty2 in sorted(backwards, key=lambda b: (b[1], b[0]))[:30]:
        labels = labels_of(traces[h - 1])
        prev = max(j for j in range(p - 1) if traces[h - 1][j][0] == "Pop")
        orders.append({"path": labels[:p], "first": labels[prev], "first_key_us_type": [us1, ty1], "then": labels[p - 1],
                       "then_key_us_type": [us2, ty2], "model": cname, "rest_of_history": labels[p:]})  # fmt: skip
    qlens, removes_at = collections.Counter(), collections.Counter()
    for steps in traces:
        size = 0
        for n_, a in steps:
            if n_ == "Add":
                size += 1
            elif n_ == "Remove":
                removes_at[size] += 1
                size -= 1
            elif n_ == "Pop":
                qlens[size] += 1
                size -= 1
    for k, pos in sorted(stuck.items()):
        steps = full[k - 1]
        labels = labels_of(steps)
        name_, args = steps[pos - 1]
        lab = labels[pos - 1]
        if name_ == "Raised":
            dlabel, kind, exp = args[0], "exception", None
        else:
            dlabel, kind = lab, "outcome"
            exp = (
                [f"{name_}({i})" for i in allowed.get(k, [])]
                if name_ in ("Pop", "Peek")
                else ["(not an enabled action of the spec in this state)"]
            )
        divs.append({"path": labels[:pos], "label": lab, "kind": kind, "fields": ["outcome_not_allowed_by_spec"],
                     "expected": exp, "got": lab, "error": args[1] if name_ == "Raised" else None,
                     "clause": _queue_clause(_Div(dlabel, labels[:pos])), "model": cname,
                     "rest_of_history": labels[pos:]})  # fmt: skip
    res.traces_validated += len(traces)
    res.extra["queue_traces"] = [{
        "model": cname, "batch": name, "histories_validated_step_by_step": len(full), "calls_validated": sum(len(t) for t in full),
        "rejected_by_spec": len(stuck), "histories_pop_order_only": n_order, "pop_runs_judged": len(runs),
        "histories_with_backwards_pops": len({b[0] for b in backwards}), "tlc_wall_s": round(r.wall_s, 1),
    }]  # fmt: skip
    res.extra["_trace_counts"] = [{"pops_at_queue_length": {str(k): v for k, v in qlens.items()},
                                   "removes_at_queue_length": {str(k): v for k, v in removes_at.items()}}]  # fmt: skip
    res.extra["_divs"] = divs
    res.extra["_order"] = orders
    if name == "t0" and traces:
        res.extra["_sample"] = [{"model": cname, "mode": "recorded history " + ("rejected" if 1 in stuck else "accepted by the spec"),
                                 "replayed_path": labels_of(traces[0])}]  # fmt: skip
    return res


def _queue_simulate_job(scratch, tier, cname):
    """`tlc -simulate` on the deep configuration: the invariants / action properties on random
    behaviours with long queues (the state space is far too large to enumerate)."""
    res = CheckResult(PID, tier)
    mod, cf = mcgen.write_mc(
        scratch, "EventQueue", _queue_consts(QUEUE_CFG[cname]), name=f"MC_EventQueueSim_{cname}",
        invariants=QUEUE_INV, properties=QUEUE_PROP,
    )  # fmt: skip
    num = 80 if tier == "quick" else 5000
    r = tlc.run_tlc(mod, cf, workers=2 if tier == "quick" else 8, simulate=f"num={num}", depth=80, seed=1 + rng("c16:sim").randrange(10**6),
                    java_opts=JOPTS, timeout=3000)  # fmt: skip
    res.extra["tlc_simulations"] = [{"name": f"EventQueue/{cname}", "behaviours": num, "depth": 80, "ok": r.ok,
                                     "wall_s": round(r.wall_s, 1)}]  # fmt: skip
    if not r.ok:
        _spec_violation(res, r, f"EventQueue simulation ({cname} constants)", QUEUE_CLAUSE, "C16.pop_min")
    return res


_GRAPHS = {}  # cname -> (graph, keytab); filled before forking the replay workers


def _queue_replay_job(tier, cname, mode, shard, depth, budget):
    res = CheckResult(PID, tier)
    g, keytab = _GRAPHS[cname]
    ad = QueueAdapter(QUEUE_CFG[cname], keytab)
    rp = CallReplayer(g, ad)
    t0 = time.time()
    complete = True
    if mode == "paths":
        complete = rp.exhaustive(depth, inline_observers=False, closing=("Pop", ()), shard=shard, budget_s=budget)
    elif mode == "paths_inline":
        complete = rp.exhaustive(depth, inline_observers=True, closing=("Pop", ()), shard=shard, budget_s=budget)
    elif mode == "sampled":
        rnd = rng(f"c16:{cname}:sampled:{shard[0]}")
        n = (1500 if tier == "quick" else 60000) // shard[1]
        for dpt in depth:
            complete = rp.sampled(n, dpt, rnd, inline_prob=0.3, closing=("Pop", ()), budget_s=budget / len(depth)) and complete
    else:
        rnd = rng(f"c16:{cname}:{shard[0]}")
        rp.random_calls(100 if tier == "quick" else 3000, 30, rnd)
        frac = rp.cover(10**9, rnd, budget_s=budget, mine=lambda node: int(node) % shard[1] == shard[0])
        res.extra["queue_call_cover"] = {f"{cname}/{shard[0]}of{shard[1]}": round(frac, 4)}
    if mode.startswith("paths") and shard[0] == 0:
        res.extra["queue_path_counts"] = {f"{cname}/{mode}/depth{depth}": rp.count_paths(depth)}
    stat = {
        "model": cname, "mode": mode, "shard": shard[0], "depth": depth, "complete": complete,
        "paths": rp.paths, "calls": rp.steps, "unrealised_tie_paths": rp.unrealised,
        "choice_points": rp.choice_points, "wall_s": round(time.time() - t0, 1),
    }  # fmt: skip
    res.traces_validated += rp.paths
    res.extra["queue_replay"] = [stat]
    res.extra["_counts"] = [{"outcomes": dict(rp.outcomes), "pops_after": dict(ad.pops_after),
                             "calls": dict(rp.calls_made), "div": dict(rp.div_keys)}]  # fmt: skip
    if rp.sample_path:
        res.extra["_sample"] = [{"model": cname, "mode": mode, "replayed_path": rp.sample_path}]
    res.extra["_covered"] = {f"{cname}": sorted(rp.covered)} if mode == "cover" else {}
    divs = []
    for d in rp.divergences:
        det = dict(d.detail(), clause=_queue_clause(d), model=cname)
        src = getattr(d, "src", None)
        if src is not None and d.kind == "outcome" and d.label.startswith(("Pop(", "Peek(")):
            # the spec says whether the answer was at least first in (time, type priority)
            got_id = tlaval.split_call(d.label)[1][0]
            det["first_in_time_and_type"] = got_id in g.states[src]["obs"]["keymin"]
        divs.append(det)
    res.extra["_divs"] = divs
    res.extra["_order"] = [dict(v, model=cname) for v in ad.order_violations[:20]]
    res.extra["queue_order_violations"] = len(ad.order_violations)
    return res


# ---------------------------------------------------------------------------


def _stage1(kind, scratch, tier, *a):
    if kind == "grid":
        return _grid_job(scratch, tier)
    if kind == "limbs":
        return _limb_job(scratch, tier, *a)
    if kind == "records":
        return _records_job(scratch, tier, *a)
    if kind == "queue_mc":
        r, dot, keytab = _queue_mc(scratch, tier, *a)
        r.extra["_dot"] = {a[0]: [dot, [[list(k), list(v)] for k, v in keytab.items()]]}
        return r
    if kind == "queue_traces":
        return _queue_traces_job(scratch, tier, *a)
    if kind == "queue_sim":
        return _queue_simulate_job(scratch, tier, *a)
    raise AssertionError(kind)


def run(tier: str) -> CheckResult:
    res = CheckResult(PID, tier)
    q = tier == "quick"
    res.assumptions = [
        "TLC evaluates ErdosTime.tla / EventQueue.tla for the stated constants only; magnitudes beyond 32 bits rely on "
        "the limb operators, which are themselves model-checked against native integers (tiny base exhaustively, "
        "real base on a boundary grid) and against Python's integers on random 56-bit operands",
        "time values have |us| < 2^53 (the property's bound); values above are reported in `above_bound`, not judged",
        "events of a task-carrying type always carry a task and the others never do (what Event.__init__ enforces / "
        "simulator.py does), so Event.__lt__ is a strict weak order",
        "Retime = assignment to Event._time followed by EventQueue.reheapify(), as simulator.py:816-819,1135-1136 does",
        "conv.task_name_tiebreak: at equal time and type, events that both carry a task come out in the order of "
        "Task.unique_name (Event.__lt__); the statement only speaks of time and type priority, the spec pins the "
        "code's convention and marks a breach of it alone as such",
        "comparison of EventTime with other types is out of scope",
    ]
    ns()
    marks = [("start", time.time())]
    with Scratch() as scratch:
        calls = gen_calls(tier, rng("c16:records"))
        above = gen_above_bound()
        nb = 2 if q else 12
        batches = [calls[i::nb] for i in range(nb)]
        batches[0] = batches[0] + above  # the probes ride along in the first batch
        wide = "wide"
        jobs = [("queue_mc", scratch, tier, "paths", True), ("queue_mc", scratch, tier, wide, True)]
        if not q:  # model-checked only: the graph is too large to dump
            jobs.append(("queue_mc", scratch, tier, "wide_thorough", False))
        nt, n_full, n_order = (2, 400, 2600) if q else (6, 5000, 45000)
        jobs += [("queue_traces", scratch, tier, "deep", f"t{k}", n_full, n_order, k) for k in range(nt)]
        jobs += [("queue_sim", scratch, tier, "deep")]
        jobs += [("grid", scratch, tier), ("limbs", scratch, tier, "tiny"), ("limbs", scratch, tier, "boundary")]
        jobs += [("records", scratch, tier, f"b{i}", b) for i, b in enumerate(batches)]
        marks.append(("generated_calls", time.time()))
        parts = parallel(_stage1, jobs, procs=16)
        marks.append(("tlc_stage", time.time()))
        dots = {}
        fails = {}
        rsamples = []
        tdivs, torders, tsamples = [], [], []
        tcounts = collections.defaultdict(collections.Counter)
        for p in parts:
            dots.update(p.extra.pop("_dot", {}))
            fails.update(p.extra.pop("_fails", {}))
            rsamples += p.extra.pop("_rec_sample", [])
            tdivs += p.extra.pop("_divs", [])
            torders += p.extra.pop("_order", [])
            tsamples += p.extra.pop("_sample", [])
            for c in p.extra.pop("_trace_counts", []):
                for k, v in c.items():
                    tcounts[k].update(v)
            res.merge(p)
        res.extra["queue_traces_depth"] = {k: dict(sorted(v.items(), key=lambda kv: int(kv[0]))) for k, v in tcounts.items()}
        # --- T verdicts
        tally = _Tally(res, per_key=3)
        nfail = 0
        above_fails = []
        for name, fl in sorted(fails.items()):
            for f in fl:
                if f["id"] >= ABOVE_ID0:
                    above_fails.append(f)
                    continue
                nfail += 1
                for c in f["clauses"]:
                    if not c.startswith("C16."):
                        raise tlc.TLCMachineryError(f"record {f['id']} of batch {name}: {c} ({f['call']})")
                    tally.bad(
                        c, "record",
                        f"EventTime call record violates {c}: {f['call']}",
                        {"call": f["call"], "record": f["record"], "bound": "|us| < 2^53"},
                        key=f"record:{c}:{json.dumps(f['call'], sort_keys=True)}",
                    )  # fmt: skip
        kinds = collections.Counter(c[1] for c in calls)
        res.traces_validated += len(calls)
        res.extra["records"] = {
            "validated_by_tlc": len(calls), "by_kind": dict(kinds), "failed": nfail,
            "max_abs_us": max(abs(c[2][0]) * FACTOR[c[2][1]] for c in calls if c[1] != "int"),
        }  # fmt: skip
        if rsamples:
            res.samples.append({**rsamples[0], "verdict": "RecFailed = {}" if not nfail else "see violations"})
        ab = [{"call": f["call"], "clauses": f["clauses"]} for f in above_fails]
        res.extra["above_bound"] = {"records": len(above), "deviating": len(ab), "examples": ab[:12]}
        if ab:
            res.notes.append(
                f"outside the property's bound (|us| >= 2^53): {len(ab)} of {len(above)} probe calls deviate from exact "
                f"integer arithmetic (float factor in EventTime.to), e.g. {ab[0]}; not judged"
            )
        else:
            res.notes.append("probe calls with |us| >= 2^53: no deviation observed")
        ET = ns().EventTime
        res.notes.append(
            "the 'invalid' marker is the plain value -1 us: EventTime(-1, US) == EventTime.invalid() is "
            f"{mk_time((-1, 'us')) == ET.invalid()}, is_invalid() looks at the count only (EventTime(-1, MS).is_invalid() is "
            f"{mk_time((-1, 'ms')).is_invalid()} although it is -1000 us != invalid(): {mk_time((-1, 'ms')) != ET.invalid()}); "
            "by construction, matches IsInvalid in the spec, not judged"
        )
        # --- R on the queue
        if any(v.clause.startswith("C16.pop") or v.clause == "C16.next_of_type" for v in res.violations if v.key.startswith("spec:")):
            return res
        for cname, (dot, kt) in dots.items():
            if dot is None:
                continue
            g = tlc.load_dot(dot)
            os.remove(dot)
            _GRAPHS[cname] = (g, {(i, tuple(t)): tuple(k) for (i, t), k in kt})
            res.extra.setdefault("queue_graphs", {})[cname] = {
                "states": len(g.states), "edges": sum(len(v) for v in g.edges.values())}  # fmt: skip
        marks.append(("graphs_loaded", time.time()))
        # mutator depth: observers at the end + drain / observers after every step + drain
        d_end, d_inline = (4, 3) if q else (5, 4)
        budget = 75 if q else 900
        rjobs = []
        if "paths" in _GRAPHS:
            n1, n2, n3 = (6, 3, 2) if q else (10, 2, 2)
            rjobs += [(tier, "paths", "paths", (k, n1), d_end, budget) for k in range(n1)]
            rjobs += [(tier, "paths", "paths_inline", (k, n2), d_inline, budget) for k in range(n2)]
            rjobs += [(tier, "paths", "sampled", (k, n3), (5, 6, 8) if q else (6, 7, 8, 10), budget) for k in range(n3)]
            rjobs += [(tier, "paths", "cover", (0, 1), 0, budget * 0.8)]
        if wide in _GRAPHS:
            n4 = 3
            rjobs += [(tier, wide, "cover", (k, n4), 0, budget * 0.8) for k in range(n4)]
        covered = collections.defaultdict(set)
        counts = collections.defaultdict(collections.Counter)
        qsamples, divs, orders = list(tsamples), list(tdivs), list(torders)
        for p in parallel(_queue_replay_job, rjobs, procs=16):
            for k, v in p.extra.pop("_covered", {}).items():
                covered[k] |= {tuple(x) for x in v}
            for c in p.extra.pop("_counts", []):
                for k, v in c.items():
                    counts[k].update(v)
            qsamples += p.extra.pop("_sample", [])
            divs += p.extra.pop("_divs", [])
            orders += p.extra.pop("_order", [])
            res.merge(p)
        _queue_verdicts(res, divs, orders)
        marks.append(("queue_replay", time.time()))
        res.extra["stage_wall_s"] = {b[0]: round(b[1] - a[1], 1) for a, b in zip(marks, marks[1:])}
        res.extra["queue_calls_made"] = dict(counts["calls"])
        res.extra["queue_outcomes"] = dict(counts["outcomes"])
        res.extra["queue_pops_checked_after"] = dict(counts["pops_after"])
        res.extra["queue_divergence_keys"] = dict(counts["div"])
        res.samples += qsamples[:1] + qsamples[-1:]
        for cname, cov in covered.items():
            tot = res.extra["queue_graphs"][cname]["edges"]
            res.extra["queue_graphs"][cname]["edges_covered_by_cover_walk"] = len(cov)
            res.extra["queue_graphs"][cname]["edge_cover_fraction"] = round(len(cov) / max(1, tot), 4)
        incomplete = [s for s in res.extra.get("queue_replay", []) if not s["complete"]]
        if incomplete:
            res.notes.append(
                f"{len(incomplete)} replay shard(s) stopped at the time budget before finishing their enumeration "
                "(see coverage.queue_replay)"
            )
    return res


def replay(d: dict) -> int:
    """`run.py --replay <file>`: re-execute a stored counterexample against the repository.
    Returns 1 when the deviation is still there."""
    det = d.get("detail", {})
    ns()
    if "path" in det and "model" in det:  # event-queue history
        cfg = QUEUE_CFG[det["model"]]
        keytab = collections.defaultdict(lambda: (0, 0, 0))
        ad = QueueAdapter(cfg, keytab)
        ad.fresh()
        print(f"re-executing {len(det['path'])} calls on a fresh EventQueue ({det['model']} constants)")
        last = None
        for label in det["path"]:
            name, args = tlaval.split_call(label)
            call = ad.call_of(name, args)
            try:
                out = ad.invoke(*call)
                last = f"{out[0]}({','.join(tlaval.to_tla(a) for a in out[1])})" if out[1] else out[0]
            except Exception as ex:  # noqa
                last = f"raised {ex!r}"
            print(f"  {label:40s} -> {last}")
        if det.get("expected") and det.get("kind") == "outcome":
            still = last not in det["expected"]
            print(f"spec allows {det['expected']}; code answered {last}: {'STILL DEVIATES' if still else 'now conforms'}")
            return 1 if still else 0
        if det.get("then"):  # pop-order counterexample: does the history end with the same pop again?
            still = last == det["then"]
            print(f"recorded: {det['first']} {det['first_key_us_type']} then {det['then']} {det['then_key_us_type']}; "
                  f"code now answers {last}: {'STILL DEVIATES' if still else 'now conforms'}")
            return 1 if still else 0
        return 0
    if "op" in det:  # grid case
        args = [mk_time(v) if isinstance(v, list) else v for v in det["operands"]]
        op = det["op"]
        if op == "to":
            got = _try(lambda: un_time(args[0].to(_unit(args[1]))))
            exp = ["raised", "ValueError"] if det["expected"] == "ValueError" else ["ok", det["expected"]]
        else:
            fn = GRID_OPS[op][1] if op in GRID_OPS else GRID_OPS_MORE[op]
            got = _try(lambda: fn(*args))
            exp = ["ok", det["expected"]]
        print(f"{op}{det['operands']}: spec expects {exp}, code gives {got}: {'STILL DEVIATES' if got != exp else 'now conforms'}")
        return 1 if got != exp else 0
    if "call" in det:  # recorded call on big magnitudes: execute it again and let TLC judge
        c = det["call"]
        call = (1, c["kind"]) + tuple(tuple(c[k]) if isinstance(c[k], list) else c[k] for k in ("a", "b", "x", "y", "k") if k in c)
        with Scratch() as scratch:
            r = _records_job(scratch, "quick", "replay", [call])
        fails = r.extra["_fails"]["replay"]
        print(f"call {c}: RecFailed = {fails[0]['clauses'] if fails else []}")
        return 1 if fails else 0
    return 0
