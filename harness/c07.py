"""C07 — decided on the shared sim corpus (SimTrace.tla) and the exhaustive Simulator model; see simprops.py / simmc.py."""
from . import simprops
from .common import CheckResult


def run(tier):
    res = CheckResult("C07", tier)
    simprops.check("C07", tier, res)
    return res
