"""C02 — decided on the shared sim corpus (SimTrace.tla) and the exhaustive Simulator model; see simprops.py / simmc.py."""
from . import simprops
from .common import CheckResult


def run(tier):
    res = CheckResult("C02", tier)
    simprops.check("C02", tier, res)
    return res
