"""Run the real Simulator on a world under the tracer and record a trace.

Hooks are add-only wrappers installed from outside the repository (class attributes of
`Simulator` replaced by wrapping functions) and only when ERDOS_VERIF_TRACE=1.
A trace is `{"world": W, "init": S0, "recs": [R1, R2, ...], "end": {...}}`.  Every record
is one loop action of simulator.py:

  {"k": "step", "size": n, "post": Δ}                     Simulator.__step
  {"k": "ev", "ty": .., "tm": .., "t": .., "g": .., "post": Δ, "rows": [...],
   "sched": {...}?, "offers": [...], "draws": [...], "new": [...]}   Simulator.__handle_event

`Δ` is the projected state after the action, as a delta against the previous record
(changed tasks / workers only; small scalar fields always).
"""
from __future__ import annotations

import os
import random
import signal
import sys
import time
import traceback

from . import worlds
from .common import GUARD, import_repo

MAX_RECS = 6000
ZERO_STEP_LIMIT = 200


class HangDetected(Exception):
    pass


class Truncated(Exception):
    """the run is long but progressing: recording stops, the prefix is validated, no verdict about the rest"""


NO_PROGRESS_LIMIT = 1500


class Tracer:
    def __init__(self, sim, world, fl, sc):
        self.sim = sim
        self.world = world
        self.tidx = {}  # task id -> idx (1-based)
        self.tobj = []
        self.gidx = {}  # task graph name -> idx
        self.gobj = []
        self.pool_idx = {}
        self.worker_idx = {}
        self.inst = {}  # (p, w) -> [Resource]
        for pi, pool in enumerate(sim._worker_pools.worker_pools, start=1):
            self.pool_idx[pool.id] = pi
            for wi, w in enumerate(pool.workers, start=1):
                self.worker_idx[w.id] = (pi, wi)
                self.inst[(pi, wi)] = [r for r, _ in w.resources.resources]
        self.recs = []
        self.rows = []
        self.cur = None
        self.prev_tasks = {}
        self.prev_workers = {}
        self.prev_q = None
        self.zero_steps = 0
        self.new_static = []
        self.pidx = {}  # work profile id -> idx

    # -- registration -------------------------------------------------------
    def graph_index(self, tg):
        i = self.gidx.get(tg.name)
        if i is None:
            self.gobj.append(tg)
            i = len(self.gobj)
            self.gidx[tg.name] = i
            # register tasks in the graph's node order
            for t in tg.get_nodes():
                self.task_index(t, tg)
            stat = {
                "g": i,
                "name": [ord(c) for c in tg.name],
                "tasks": [self.tidx[t.id] for t in tg.get_nodes()],
                "closed": bool(
                    tg.job_graph is not None
                    and tg.job_graph.release_policy is not None
                    and tg.job_graph.release_policy.policy_type.name == "CLOSED_LOOP"
                ),
                "jg": tg.job_graph.name if tg.job_graph is not None else "",
                "cp": self.tm(tg.critical_path_runtime),
                # closed-loop parameters of the job graph (0 otherwise): concurrency and number of invocations
                "conc": self._cl(tg, "concurrency"),
                "ninv": self._cl(tg, "num_invocations"),
            }
            self.new_static.append({"graph": stat, "tasks": [self.static_task(t, tg) for t in tg.get_nodes()]})
        return i

    def prof_index(self, prof):
        if prof is None:
            return 0
        i = self.pidx.get(prof.id)
        if i is None:
            i = len(self.pidx) + 1
            self.pidx[prof.id] = i
        return i

    @staticmethod
    def _cl(tg, attr):
        try:
            rp = tg.job_graph.release_policy
            if rp is not None and rp.policy_type.name == "CLOSED_LOOP":
                return int(getattr(rp, attr))
        except Exception:  # noqa
            pass
        return 0

    def task_index(self, t, tg=None):
        i = self.tidx.get(t.id)
        if i is None:
            self.tobj.append(t)
            i = len(self.tobj)
            self.tidx[t.id] = i
        return i

    NOSD = {"dem": [], "rt": -1, "bs": 0, "bid": 0}
    NOPLAN = {"pool": 0, "wk": 0, "sd": NOSD, "tm": -1}

    def strat_desc(self, s):
        if s is None:
            return dict(self.NOSD)
        from workload import BatchStrategy

        return {
            "dem": [{"name": r.name, "id": r.id, "q": q} for r, q in s.resources.resources],
            "rt": s.runtime.to(self.US).time,
            "bs": s.batch_size,
            "bid": (abs(hash(s.id)) % 1000003 + 1) if isinstance(s, BatchStrategy) else 0,
        }

    def static_task(self, t, tg):
        return {
            "t": self.tidx[t.id],
            "g": self.gidx[tg.name],
            "nk": [ord(c) for c in t.unique_name],
            "par": [self.tidx[p.id] for p in tg.get_parents(t)],
            "ch": [self.tidx[c.id] for c in tg.get_children(t)],
            "cond": bool(t.conditional),
            "term": bool(t.terminal),
            "strats": [self.strat_desc(s) for s in t.available_execution_strategies],
            "sink": bool(tg.is_sink_task(t)),
            "src": bool(tg.is_source_task(t)),
            "prof": self.prof_index(t.profile),
            # probability when the task graph was created (millionths): with conditionals resolved at submission this is
            # 1000000 on the resolved branch and 0 on the others (C07)
            "p0": int(round(t.probability * 1000000)),
        }

    # -- projection -----------------------------------------------------------
    @property
    def US(self):
        from utils import EventTime

        return EventTime.Unit.US

    def tm(self, et):
        if et is None:
            return -1
        v = et if isinstance(et, int) else et.to(self.US).time
        if v >= 2**40:  # sys.maxsize-based times -> the spec's Inf (10^9) plus the offset
            v = 10**9 + max(-(10**6), min(10**6, v - sys.maxsize))
        return v

    def plan_desc(self, pl):
        if pl is None or pl.worker_pool_id is None:
            return dict(self.NOPLAN)
        return {
            "pool": self.pool_idx.get(pl.worker_pool_id, 0) if pl.worker_pool_id is not None else 0,
            "wk": self.worker_idx[pl.worker_id][1] if pl.worker_id is not None else 0,
            "sd": self.strat_desc(pl.execution_strategy),
            "tm": self.tm(pl.placement_time),
        }

    def prof_plan_desc(self, pl):
        ls = pl.loading_strategy
        return {
            "pool": self.pool_idx.get(pl.worker_pool_id, 0),
            "wk": self.worker_idx[pl.worker_id][1] if pl.worker_id is not None else 0,
            "sd": self.strat_desc(ls),
            "tm": self.tm(pl.placement_time),
        }

    def dyn_task(self, t):
        return {
            "st": t.state.value,
            "pss": t._pre_scheduling_state.value,
            "rel": self.tm(t.release_time),
            "irel": self.tm(t.intended_release_time),
            "dl": self.tm(t.deadline),
            "start": self.tm(t.start_time),
            "rem": self.tm(t._remaining_time),
            "last": self.tm(t._last_step_time),
            "fin": self.tm(t.completion_time),
            "cat": self.tm(t.cancellation_time),
            "pool": self.pool_idx.get(t.worker_pool_id, 0) if t.worker_pool_id is not None else 0,
            "plan": self.plan_desc(t.current_placement),
            "prob": int(round(t.probability * 1000000)),
            "ppool": (self.pool_idx.get(t.last_preemption.old_worker_pool, 0) if t.last_preemption is not None else 0),
        }

    def ev_desc(self, e):
        return {
            "ty": e.event_type.value,
            "tm": self.tm(e.time),
            "t": self.task_index(e.task) if e.task is not None else 0,
            "g": self.gidx.get(e.task_graph, 0) if (e.task is None and e.task_graph is not None) else 0,
            "pl": self.plan_desc(e.placement) if (e.placement is not None and e.event_type.value in (8, 10)) else (
                self.prof_plan_desc(e.placement) if (e.placement is not None and e.event_type.value in (2, 9)) else dict(self.NOPLAN)),
            "pr": self.prof_index(e.placement.work_profile) if (e.placement is not None and e.event_type.value in (2, 9)) else 0,
        }

    def ev_key(self, d):
        pl = d["pl"]
        return (
            d["tm"],
            d["ty"],
            d["t"],
            d["g"],
            (pl["pool"], pl["wk"], pl["tm"], pl["sd"]["rt"]),
            d.get("pr", 0),
        )

    def project(self):
        sim = self.sim
        # (re)register graphs: closed-loop graphs appear at run time
        for tg in list(sim._workload.task_graphs.values()):
            self.graph_index(tg)
        tasks = {}
        for i, t in enumerate(self.tobj, start=1):
            tasks[i] = self.dyn_task(t)
        workers = {}
        for pool in sim._worker_pools.worker_pools:
            pi = self.pool_idx[pool.id]
            pp = {self.tidx[t.id] for t in pool.get_placed_tasks()}
            for w in pool.workers:
                key = self.worker_idx[w.id]
                occ = []
                for t in w.get_placed_tasks():
                    try:
                        al = [
                            [next((k + 1 for k, r in enumerate(self.inst[key]) if r.id == res.id and r.name == res.name), 0), q]
                            for res, q in w.get_allocated_resources(t)
                        ]
                    except Exception:  # noqa
                        al = [[0, 0]]
                    occ.append({"t": self.tidx[t.id], "sd": self.strat_desc(w._placed_tasks[t]), "al": al})
                occ.sort(key=lambda o: o["t"])
                # the worker's availability asked by NAME (wildcard id) equals the sum over its own instances: entries under
                # foreign resource keys (phantom units) would show up here and nowhere else
                names = []
                for r in self.inst[key]:
                    if r.name not in names:
                        names.append(r.name)
                from workload import Resource as _Res

                agg = int(all(
                    w.resources.get_available_quantity(_Res(name=n, _id="any"))
                    == sum(w.resources.get_available_quantity(r) for r in self.inst[key] if r.name == n)
                    for n in names
                )) if not any(r.id == "any" for r in self.inst[key]) else 1
                workers[key] = {
                    "p": key[0],
                    "w": key[1],
                    "agg": agg,
                    "av": [w.resources.get_available_quantity(r) for r in self.inst[key]],
                    "occ": occ,
                    "inpool": sorted(o["t"] for o in occ if o["t"] in pp),
                    "pend": sorted(self.prof_state(w, key, p, w._pending_profiles[p]) for p in w.get_pending_profiles()),
                    "avl": sorted(self.prof_state(w, key, p, w._available_profiles[p]) for p in w.get_available_profiles()),
                }
        q = [self.ev_desc(e) for e in sim._event_queue._event_queue]
        q.sort(key=self.ev_key)
        fut = sorted([self.tidx_by_strid(k), self.tm(ev.time)] for k, ev in sim._future_placement_events.items())
        nse = sim._next_scheduler_event
        lp = sim._last_scheduler_placements
        state = {
            "now": self.tm(sim._simulator_time),
            "q": q,
            "fut": fut,
            "sch": {
                "last": self.tm(sim._last_scheduler_start_time),
                "next": self.tm(nse.time) if nse is not None else -1,
                "pend": 1 if lp is not None else 0,
            },
            "ctr": {
                "fin": sim._finished_tasks,
                "can": sim._cancelled_tasks,
                "miss": sim._missed_task_deadlines,
                "gfin": sim._finished_task_graphs,
                "gmiss": sim._missed_task_graph_deadlines,
            },
            "wl": [self.gidx[name] for name in sim._workload.task_graphs.keys()],
        }
        return state, tasks, workers

    def prof_state(self, w, key, prof, strat):
        """[profile idx, remaining loading time, demand, allocation list] as a list (sortable)"""
        al = w.resources._current_allocations.get(prof) if prof in w.resources._current_allocations else []
        return [
            self.prof_index(prof),
            self.tm(strat.runtime),
            [{"name": r.name, "id": r.id, "q": q} for r, q in strat.resources.resources],
            [[next((k + 1 for k, r in enumerate(self.inst[key]) if r.id == res.id and r.name == res.name), 0), q] for res, q in al],
        ]

    def tidx_by_strid(self, sid):
        return self.tidx[sid] if sid in self.tidx else self._tidx_str(sid)

    def _tidx_str(self, sid):
        for i, t in enumerate(self.tobj, start=1):
            if t.id == sid:
                return i
        return 0

    def delta(self):
        state, tasks, workers = self.project()
        d = dict(state)
        d["ts"] = [[i, v] for i, v in tasks.items() if self.prev_tasks.get(i) != v]
        d["cl"] = [v for k, v in sorted(workers.items()) if self.prev_workers.get(k) != v]
        self.prev_tasks = tasks
        self.prev_workers = workers
        if self.new_static:
            d["new"] = self.new_static
            self.new_static = []
        return d

    # -- record helpers ------------------------------------------------------------
    def begin(self, rec):
        self.cur = rec
        self.rows = []
        rec["offers"] = []
        rec["draws"] = []

    def parse_row(self, row):
        """CSV row -> {"ty", "f": [ints], "res": [{name,id,q}]} with names/ids replaced by indices."""
        c = row.split(",")
        ty = c[1]
        I = lambda x: int(x)  # noqa: E731

        def task(id_, name=None, graph=None, ts=None):
            t = self.tidx.get(id_, 0)
            ok = 0
            if t:
                o = self.tobj[t - 1]
                ok = int(
                    (name is None or o.name == name)
                    and (graph is None or o.task_graph == graph)
                    and (ts is None or str(o.timestamp) == ts)
                )
            return t, ok

        def res(cols):
            return [{"name": cols[i], "id": cols[i + 1], "q": int(cols[i + 2])} for i in range(0, len(cols) - 2, 3)]

        def pool(pid):
            return self.pool_idx.get(pid, 0)

        try:
            if ty == "SIMULATOR_START":
                return {"ty": ty, "f": [I(c[0])], "res": []}
            if ty == "UPDATE_WORKLOAD":
                return {"ty": ty, "f": [I(c[0]), I(c[2]), I(c[3])], "res": []}
            if ty == "TASK_GRAPH_RELEASE":
                return {"ty": ty, "f": [I(c[0]), I(c[2]), I(c[3]), self.gidx.get(c[4], 0), I(c[5]), I(c[6])], "res": []}
            if ty == "TASK_RELEASE":
                t, ok = task(c[7], c[2], c[8], c[3])
                return {"ty": ty, "f": [I(c[0]), t, ok, I(c[4]), I(c[5]), I(c[6]), I(c[9])], "res": res(c[10:])}
            if ty == "TASK_FINISHED":
                t, ok = task(c[7], c[2], c[4], c[3])
                return {"ty": ty, "f": [I(c[0]), t, ok, I(c[5]), I(c[6])], "res": []}
            if ty == "TASK_GRAPH_FINISHED":
                return {"ty": ty, "f": [I(c[0]), self.gidx.get(c[2], 0), I(c[3]), I(c[4])], "res": []}
            if ty == "MISSED_DEADLINE":
                t, ok = task(c[5], c[2], None, c[3])
                return {"ty": ty, "f": [I(c[0]), t, ok, I(c[4])], "res": []}
            if ty == "MISSED_TASK_GRAPH_DEADLINE":
                return {"ty": ty, "f": [I(c[0]), self.gidx.get(c[2], 0), I(c[3])], "res": []}
            if ty == "TASK_CANCEL":
                t, ok = task(c[4], c[2], c[5], c[3])
                return {"ty": ty, "f": [I(c[0]), t, ok, I(c[6])], "res": []}
            if ty == "TASK_SKIP":
                t, ok = task(c[5], c[2], c[3], c[4])
                return {"ty": ty, "f": [I(c[0]), t, ok], "res": []}
            if ty == "TASK_SCHEDULED":
                t, ok = task(c[5], c[2], c[3], c[4])
                return {"ty": ty, "f": [I(c[0]), t, ok, I(c[6]), I(c[7]), pool(c[8]), I(c[9])], "res": []}
            if ty == "TASK_PLACEMENT":
                t, ok = task(c[5], c[2], c[3], c[4])
                return {"ty": ty, "f": [I(c[0]), t, ok, pool(c[6]), I(c[7])], "res": res(c[8:])}
            if ty in ("TASK_NOT_READY", "WORKER_NOT_READY"):
                t, ok = task(c[4], c[2], None, c[3])
                return {"ty": ty, "f": [I(c[0]), t, ok, pool(c[5])], "res": []}
            if ty == "TASK_PREEMPT":
                t, ok = task(c[4], c[2], None, c[3])
                return {"ty": ty, "f": [I(c[0]), t, ok], "res": []}
            if ty == "TASK_MIGRATED":
                t, ok = task(c[4], c[2], None, c[3])
                return {"ty": ty, "f": [I(c[0]), t, ok, pool(c[5]), pool(c[6])], "res": res(c[7:])}
            if ty == "SCHEDULER_START":
                return {"ty": ty, "f": [I(c[0]), I(c[2]), I(c[3])], "res": []}
            if ty == "WORKER_POOL_UTILIZATION":
                return {"ty": ty, "f": [I(c[0]), pool(c[2]), I(c[4]), I(c[5])], "res": [{"name": c[3], "id": "", "q": 0}]}
            if ty == "SCHEDULER_FINISHED":
                return {"ty": ty, "f": [I(c[0]), I(c[2]), I(c[3]), I(c[4])], "res": []}
            if ty == "SIMULATOR_END":
                return {"ty": ty, "f": [I(c[i]) for i in (0, 2, 3, 4, 5, 6, 7)], "res": []}
        except Exception:  # noqa  malformed row: reported as such
            pass
        return {"ty": "UNPARSED_" + ty, "f": [], "res": []}

    @staticmethod
    def clampi(v):
        if isinstance(v, int) and abs(v) >= 2**31:
            return 10**9 if v > 0 else -(10**9)
        return v

    def end(self, rec, exc=None):
        rec["post"] = self.delta()
        self._last_rec_cpu = time.process_time()
        rec["raw_rows"] = self.rows
        rows = [self.parse_row(r) for r in self.rows]
        for r in rows:
            r["f"] = [self.clampi(x) for x in r["f"]]
        rec["rows"] = rows
        if exc is not None:
            rec["exc"] = f"{type(exc).__name__}: {exc}"[:300]
        self.recs.append(rec)
        self.cur = None
        # a run that stops advancing the clock is a livelock (verdict); a long run that keeps advancing is merely cut
        now = rec["post"]["now"]
        if getattr(self, "_last_now", None) != now:
            self._last_now, self._since_progress = now, 0
        else:
            self._since_progress += 1
        cap = self.world.get("max_recs")
        if cap is not None and len(self.recs) > cap:
            raise HangDetected(f"more than {cap} loop actions")
        if self._since_progress > NO_PROGRESS_LIMIT:
            raise HangDetected(f"more than {NO_PROGRESS_LIMIT} loop actions without clock progress")
        if len(self.recs) > MAX_RECS:
            raise Truncated(f"more than {MAX_RECS} loop actions")


def _install(tr: Tracer):
    """Install wrappers; returns an uninstall function."""
    import simulator as simmod
    import workload.tasks as tasksmod
    from utils import EventTime
    from workload import Workload

    Sim = simmod.Simulator
    orig_step = Sim._Simulator__step
    orig_handle = Sim._Simulator__handle_event
    orig_gst = Workload.get_schedulable_tasks

    def step(self, step_size=EventTime(1, EventTime.Unit.US)):
        if self is not tr.sim:
            return orig_step(self, step_size)
        rec = {"k": "step", "size": tr.tm(step_size)}
        tr.begin(rec)
        exc = None
        try:
            return orig_step(self, step_size)
        except Exception as e:  # noqa
            exc = e
            raise
        finally:
            if isinstance(exc, (HangDetected, Truncated)):
                tr.cur = None      # the watchdog interrupted this action: it is not part of the trace (the exception goes on)
            else:
                tr.end(rec, exc)
                if rec["size"] == 0 and tr.recs and len(tr.recs) >= 2 and tr.recs[-2]["k"] == "step":
                    tr.zero_steps += 1
                    if tr.zero_steps > ZERO_STEP_LIMIT:
                        raise HangDetected(f"{ZERO_STEP_LIMIT} consecutive zero-length clock steps without an event")
                elif rec["size"] != 0:
                    tr.zero_steps = 0

    def handle(self, event):
        if self is not tr.sim:
            return orig_handle(self, event)
        tr.zero_steps = 0
        d = tr.ev_desc(event)
        rec = {"k": "ev", "ty": d["ty"], "tm": d["tm"], "t": d["t"], "g": d["g"], "pl": d["pl"], "pr": d["pr"]}
        tr.begin(rec)
        exc = None
        if d["ty"] == 6:
            # UPDATE_WORKLOAD: whether the loader handed over a Workload (even one without new task graphs) or None
            ldr = self._workload_loader
            inner = ldr.get_next_workload
            rec["upd"] = False

            def gnw(*a, **k):
                r = inner(*a, **k)
                rec["upd"] = r is not None
                return r

            ldr.get_next_workload = gnw
        try:
            return orig_handle(self, event)
        except Exception as e:  # noqa
            exc = e
            raise
        finally:
            if d["ty"] == 6:
                try:
                    del self._workload_loader.get_next_workload
                except AttributeError:
                    pass
            if isinstance(exc, (HangDetected, Truncated)):
                tr.cur = None      # the watchdog interrupted this action: it is not part of the trace (the exception goes on)
            else:
                lp = self._last_scheduler_placements
                if d["ty"] == 11 and lp is not None:
                    rec["sched"] = {
                        "rt": tr.tm(lp.runtime),
                        "decs": [tr_dec(tr, p) for p in lp],
                    }
                tr.end(rec, exc)

    GST_ARGS = ["lookahead", "preemption", "retract_schedules", "worker_pools", "policy", "branch_prediction_accuracy",
                "release_taskgraphs", "debug"]
    depth = {"n": 0}

    def gst(self, time, *a, **k):
        if tr.cur is None or self is not tr.sim._workload or depth["n"] > 0:
            return orig_gst(self, time, *a, **k)
        depth["n"] += 1
        try:
            res = orig_gst(self, time, *a, **k)
            kw = dict(zip(GST_ARGS, a))
            kw.update(k)
            la = kw.get("lookahead", EventTime.zero())
            pol = kw.get("policy")
            rtg = bool(kw.get("release_taskgraphs", False))
            rec = {
                "tm": tr.tm(time),
                "la": tr.tm(la),
                "pre": bool(kw.get("preemption", False)),
                "ret": bool(kw.get("retract_schedules", False)),
                "pol": pol.name if pol is not None else "ALL",
                "rtg": rtg,
                "res": [tr.task_index(t) for t in res],
                "probes": [],
            }
            # monotonicity probes on the same state (random state restored: RANDOM policy draws)
            st = random.getstate()
            try:
                # probes only for the first frontier call of a handler (the policy's own call and the one in
                # __get_next_scheduler_event see the same task states)
                for dla, prtg in (((1, rtg), (4, rtg), (0, True)) if not tr.cur["offers"] else ()):
                    kw2 = dict(kw)
                    kw2["lookahead"] = la + EventTime(dla, EventTime.Unit.US)
                    kw2["release_taskgraphs"] = prtg
                    if kw2.get("policy") is not None and kw2["policy"].name == "RANDOM":
                        continue
                    r2 = orig_gst(self, time, **kw2)
                    rec["probes"].append({"la": tr.tm(kw2["lookahead"]), "rtg": prtg, "res": [tr.task_index(t) for t in r2]})
            finally:
                random.setstate(st)
            tr.cur["offers"].append(rec)
            return res
        finally:
            depth["n"] -= 1

    class RandomProxy:
        def __getattr__(self, name):
            return getattr(random, name)

        def choices(self, population, weights=None, k=1, **kw):
            res = random.choices(population, weights=weights, k=k, **kw)
            if tr.cur is not None:
                try:
                    tr.cur["draws"].append(
                        {
                            "fn": "choices",
                            "pop": [tr.task_index(t) for t in population],
                            "w": [int(round(w * 1000000)) for w in weights],
                            "res": tr.task_index(res[0]),
                        }
                    )
                except Exception:  # noqa
                    pass
            return res

    class RngProxy:
        def __init__(self, inner):
            self._inner = inner

        def __getattr__(self, name):
            return getattr(self._inner, name)

        def uniform(self, a, b):
            v = self._inner.uniform(a, b)
            if tr.cur is not None:
                tr.cur["draws"].append({"fn": "uniform", "lo1000": int(a * 1000), "hi1000": int(b * 1000)})
            return v

    Sim._Simulator__step = step
    Sim._Simulator__handle_event = handle
    Workload.get_schedulable_tasks = gst
    old_random = tasksmod.random
    tasksmod.random = RandomProxy()
    old_rng = EventTime._rng
    EventTime._rng = RngProxy(old_rng)

    def uninstall():
        Sim._Simulator__step = orig_step
        Sim._Simulator__handle_event = orig_handle
        Workload.get_schedulable_tasks = orig_gst
        tasksmod.random = old_random
        EventTime._rng = old_rng

    return uninstall


def tr_dec(tr, p):
    kind = p.placement_type.value  # 1 evict 2 load 3 cancel 4 place
    d = {"kind": kind, "t": 0, "placed": False, "pool": 0, "wk": 0, "sd": dict(Tracer.NOSD), "tm": -1, "pr": 0}
    if kind in (1, 2):
        d["pr"] = tr.prof_index(p.work_profile)
        d["pool"] = tr.pool_idx.get(p.worker_pool_id, 0)
        d["wk"] = tr.worker_idx[p.worker_id][1] if p.worker_id is not None else 0
        d["sd"] = tr.strat_desc(p.loading_strategy)
        d["tm"] = tr.tm(p.placement_time)
    if kind in (3, 4):
        d["t"] = tr.task_index(p.task)
        d["placed"] = bool(p.is_placed())
        if d["placed"]:
            d["pool"] = tr.pool_idx.get(p.worker_pool_id, 0)
            d["wk"] = tr.worker_idx[p.worker_id][1] if p.worker_id is not None else 0
            d["sd"] = tr.strat_desc(p.execution_strategy)
            d["tm"] = tr.tm(p.placement_time)
    return d


class _CsvCapture:
    """stand-in for the CSV logger: records every row in order"""

    def __init__(self, sink):
        self.sink = sink

    def _emit(self, msg, *args):
        s = (msg % args) if args else msg
        self.sink(s)

    debug = info = warning = error = _emit

    def isEnabledFor(self, lvl):
        return True


def run_world(world, wall_limit=20):
    """Build and simulate one world under the tracer.  Returns the trace dict."""
    if os.environ.get(GUARD) != "1":
        raise RuntimeError(f"tracing requires {GUARD}=1")
    import_repo()
    import simulator as simmod

    t0 = time.time()
    pre_rows = []
    holder = {"tr": None}

    def sink(row):
        tr = holder["tr"]
        if tr is None or tr.cur is None:
            pre_rows.append(row)
        else:
            tr.rows.append(row)

    simmod.setup_csv_logging = lambda *a, **k: _CsvCapture(sink)
    end = {"exc": None, "hang": None}
    trace = {"world": world}
    uninstall = None

    def on_alarm(signum, frame):
        raise HangDetected(f"cpu time limit {wall_limit}s")

    # CPU time of this process (not wall clock): a loaded machine must not turn into a verdict
    old = signal.signal(signal.SIGPROF, on_alarm)
    signal.setitimer(signal.ITIMER_PROF, wall_limit)
    tr = None
    try:
        try:
            pools, sched, loader, flags, fl, sc = worlds.build(world)
        except Exception as e:  # noqa  building the world is harness work: never a verdict
            raise RuntimeError(f"world could not be built: {type(e).__name__}: {e}") from e
        from utils import EventTime

        sim = simmod.Simulator(
            worker_pools=pools,
            scheduler=sched,
            workload_loader=loader,
            loop_timeout=EventTime(fl["timeout"], EventTime.Unit.US),
            scheduler_frequency=EventTime(fl["frequency"], EventTime.Unit.US),
            _flags=flags,
        )
        tr = Tracer(sim, world, fl, sc)
        holder["tr"] = tr
        trace["init"] = tr.delta()
        trace["init_rows"] = list(pre_rows)
        trace["pools"] = [
            [[{"name": r.name, "id": r.id, "cap": q} for r, q in w.resources.resources] for w in pool.workers]
            for pool in pools.worker_pools
        ]
        # no_plan_ahead: the policy only places at the invocation time (C18's "policies that do not plan ahead")
        trace["flags"] = dict(fl, sched_rt=max(0, sc["runtime"]), no_plan_ahead=sc["kind"] in ("edf", "fifo", "lsf"))
        trace["sc"] = sc
        uninstall = _install(tr)
        sim.simulate()
    except HangDetected as h:
        if ("cpu time limit" in str(h) and tr is not None and tr.recs
                and time.process_time() - getattr(tr, "_last_rec_cpu", 0.0) < 10.0 and getattr(tr, "_since_progress", 0) < NO_PROGRESS_LIMIT):
            # a long, still progressing run that is merely expensive to trace: cut, no verdict
            end["truncated"] = str(h)
        else:
            end["hang"] = str(h)
    except Truncated as t:
        end["truncated"] = str(t)
    except Exception as e:  # noqa
        if str(e).startswith("world could not be built"):
            raise
        end["exc"] = f"{type(e).__name__}: {e}"[:500]
        end["tb"] = traceback.format_exc()[-1500:]
    finally:
        signal.setitimer(signal.ITIMER_PROF, 0)
        signal.signal(signal.SIGPROF, old)
        if uninstall:
            uninstall()
    trace["recs"] = tr.recs if tr else []
    trace["end"] = end
    if tr is not None and not end["exc"] and not end["hang"] and not end.get("truncated"):
        trace["reader"] = run_reader(tr, pre_rows)
    trace["wall_s"] = round(time.time() - t0, 3)
    if tr is not None:
        trace["rows_all"] = None
    return trace


def run_reader(tr, pre_rows):
    """C08: feed the captured CSV rows to the project's own CSVReader and project what it reconstructs."""
    import tempfile

    rows = list(pre_rows)
    for r in tr.recs:
        rows.extend(r.get("raw_rows", []))
    d = tempfile.mkdtemp(prefix="erdoscsv_")
    path = os.path.join(d, "run.csv")
    out = {"exc": "", "tasks": [], "graphs": [], "sim": [-1] * 6, "nrows": len(rows)}
    try:
        with open(path, "w") as f:
            f.write("\n".join(rows) + "\n")
        from data.csv_reader import CSVReader

        N = lambda v: -1 if v is None else int(v)  # noqa: E731
        try:
            rd = CSVReader([path])
            sim = rd._simulators[path]
            for t in sim.tasks:
                out["tasks"].append({
                    "t": tr.tidx.get(t.task_id, 0), "rel": N(t.release_time), "irel": N(t.intended_release_time),
                    "dl": N(t.deadline), "comp": N(t.completion_time), "cancelled": bool(t.cancelled),
                    "missed": bool(t.missed_deadline), "nplace": len(t.placements),
                    "ptime": N(t.placements[-1].placement_time) if t.placements else -1, "nskip": len(t.skipped_times),
                })
            for name, g in sim.task_graphs.items():
                out["graphs"].append({
                    "g": tr.gidx.get(name, 0), "rel": N(g.release_time), "dl": N(g.deadline), "n": N(g.num_tasks),
                    "cancelled": bool(g.cancelled), "comp": N(g.completion_at), "missed": bool(g.missed_deadline),
                })
            out["sim"] = [N(sim.finished_tasks), N(sim.dropped_tasks), N(sim.missed_deadlines), N(sim.finished_task_graphs),
                          N(sim.dropped_taskgraphs), N(sim.missed_taskgraphs)]
        except BaseException as e:  # noqa  (the reader asserts)
            cause = e.__cause__
            out["exc"] = f"{type(e).__name__}: {str(e)[:160]}" + (f" <- {type(cause).__name__}: {str(cause)[:80]}" if cause else "")
    finally:
        import shutil

        shutil.rmtree(d, ignore_errors=True)
    return out


def _worker(args):
    world, wall = args
    os.environ[GUARD] = "1"
    try:
        return run_world(world, wall)
    except Exception as e:  # noqa  machinery failure inside the worker
        return {"world": world, "machinery_error": f"{type(e).__name__}: {e}", "tb": traceback.format_exc()[-2000:]}


def run_worlds(worldlist, procs=16, wall=20):
    """Simulate many worlds in forked worker processes (hang-safe)."""
    import multiprocessing as mp

    ctx = mp.get_context("fork")
    from .common import _pool_worker_init

    # (a fresh process per world - maxtasksperchild=1 - was tried: the fork overhead tripled the run time)
    pool = ctx.Pool(procs, maxtasksperchild=50, initializer=_pool_worker_init)
    try:
        res = pool.map(_worker, [(w, wall) for w in worldlist], chunksize=1)
        pool.close()
        pool.join()
        return res
    except BaseException:
        pool.terminate()
        raise


if __name__ == "__main__":
    import json

    os.environ[GUARD] = "1"
    rnd = random.Random(int(sys.argv[1]) if len(sys.argv) > 1 else 1)
    w = worlds.gen_world(rnd)
    tr = run_world(w)
    print(json.dumps(tr, default=str)[:6000])
