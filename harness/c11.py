"""C11 - DAG-aware planners (ILP, TetriSched-Gurobi, Z3) order children after parents.

spec/PlanRules.tla is the oracle (ParentsPlaced, ChildAfterParent, ChildAfterRunning,
PlansViolatingOnly("precedence")).

T1  instances (chains, forks, joins, diamonds of <= 4 tasks; offered wholly because all are
    RELEASED or through release_taskgraphs, partly through a lookahead, or mixed with a
    RUNNING / SCHEDULED / COMPLETED parent; 1-2 workers, 1-2 strategies) are built as real
    Task / TaskGraph / Workload / WorkerPools objects and given to the real `schedule()` of
    ILP (with and without release_taskgraphs), TetriSched-Gurobi and Z3; the returned
    Placements become a decision record that TLC judges (RecChecked).
T2  the optimisation model built inside schedule() is captured (gurobipy.Model.optimize /
    z3.Optimize.check wrapped in this process); on a copy with a zero objective the solution
    pool (Gurobi PoolSearchMode=2) / blocking clauses (Z3), with starts bounded by the instance
    horizon, is projected on (placed?, worker, start, strategy) per task; every projected
    solution is a decision record judged by TLC -> C11.model_solution.
R   TLC enumerates, per instance, the plans inside the horizon that satisfy every rule of the
    policy's decision space except precedence (EnumNext/EnumEmit = PlansViolatingOnly); each is
    fixed in a copy of the captured model, which must be INFEASIBLE
    -> C11.model_admits_violating_plan.

Instance classes added in the second strengthening round (all go through T1, T2 and R):
unpl_*  a co-offered predecessor that cannot be placed while its descendants can: it demands a resource type the
        cluster does not have (two resource types r, q), more than any worker has, every worker that fits it is held by
        a RUNNING task of another graph beyond the horizon / by a SCHEDULED task that cannot move, or its deadline is
        hopeless under enforcement; chain2 (the source), chain3 (the MIDDLE task), join (one of two parents), diamond
        (one branch); offered RELEASED or through release_taskgraphs / lookahead.  "child placed => all co-offered
        parents placed" is judged on the returned plan, on the pool solutions and - the parent's only option being
        "unplaced" - on every plan TLC enumerates with the child placed (they must all be infeasible in the model).
multi   workers that list a capacity under several resource ids of one name ({r:g0:1, r:g1:1}, {r:g0:2, r:g1:1}).
units   the same instances on a clock 1000 times coarser with runtimes / deadlines / release times / now /
        discretisation handed to the code in different EventTime units (US, MS, S; same microsecond values).
"""
from __future__ import annotations

import json
import time

from . import c11c12_common as cc
from .common import CheckResult, parallel, rng, seed
from .c11c12_common import S1, S1L, S2, S2E, SHAPES, mk_inst, mk_task

POLICIES = ("ILP", "ILP_RTG", "TSG", "Z3")
NOW = 3
LOOSE = NOW + 16

CFG = {
    "quick": dict(n_inst=60, chunks=14, pool_cap=100, pool_time=2, plan_cap=150, max_product=2500, tlc_timeout=300,
                  judge_batch=300, agree_small=0),
    "thorough": dict(n_inst=1600, chunks=14, pool_cap=300, pool_time=4, plan_cap=2000, max_product=20000, tlc_timeout=3000,
                     judge_batch=4000, agree_small=600),
}


# ---------------------------------------------------------------------------
# instances


def _strats(kind, ti):
    if kind == "one":
        return S1 if ti % 2 == 0 else S1L
    # two strategies for the tasks that have children (their chosen runtime matters), one otherwise
    return (S2E, S2)[ti % 2]


def build_instance(policy, shape, mode, workers, skind, grid=1, tight=False, retract=None):
    """Returns an instance or None if the combination makes no sense."""
    parents = SHAPES[shape]
    n = len(parents)
    has_child = [any((i + 1) in p for p in parents) for i in range(n)]
    tasks = []
    for i, par in enumerate(parents):
        st = _strats(skind, i) if (has_child[i] or skind == "one") else S1
        if policy == "Z3":
            st = [st[-1]] if skind == "one" else [dict(st[-1], rt=st[-1]["rt"] + (i % 2))]  # Z3 reports no strategy: one per task
        tasks.append(mk_task(par, st, state="REL", release=0, deadline=LOOSE))
    opts = {"rtg": policy == "ILP_RTG", "lookahead": 0, "retract": False, "plan_ahead": -1}
    if policy == "TSG":
        opts["retract"] = True  # the scheduler's default
    if retract is not None:
        opts["retract"] = retract
    sources = [i for i in range(n) if not parents[i]]
    if mode == "rel":
        pass  # every task RELEASED (how the repository's tests offer a whole graph)
    elif mode in ("virt", "partial"):
        for i in range(n):
            if parents[i]:
                tasks[i]["state"], tasks[i]["release"] = "VIRT", -1
        if policy == "ILP":
            opts["lookahead"] = 20 if mode == "virt" else 4
        else:
            if mode == "partial":
                opts["lookahead"] = 4
                opts["rtg"] = False
            else:
                opts["rtg"] = True
        if mode == "partial" and n < 3:
            return None
    elif mode in ("run", "sched", "done_run"):
        for i in range(n):
            if parents[i]:
                tasks[i]["state"], tasks[i]["release"] = "VIRT", -1
        first = sources[0]
        t = tasks[first]
        if mode == "run":
            t["strats"] = [{"dem": 1, "rt": 4}] if len(t["strats"]) == 1 else [{"dem": 1, "rt": 4}, {"dem": 1, "rt": 6}]
            t.update(state="RUN", cur={"w": 1, "s": NOW - 1, "k": 1})
        elif mode == "sched":
            t.update(state="SCHED", cur={"w": 1, "s": NOW + 2, "k": len(t["strats"])})
            for s in t["strats"]:
                s["dem"] = 1  # every (worker, strategy) pair compatible (a known C10 crash otherwise)
        else:
            if shape != "join":
                return None
            t["strats"] = [{"dem": 1, "rt": 2}]
            t.update(state="DONE", cur={"w": 1, "s": 0, "k": 1}, fin=2)
            u = tasks[sources[1]]
            u["strats"] = [{"dem": 1, "rt": 4}]
            u.update(state="RUN", cur={"w": len(workers), "s": NOW - 1, "k": 1})
        if policy == "ILP":
            opts["lookahead"] = 20
        else:
            opts["rtg"] = True
    else:
        raise ValueError(mode)
    if policy == "Z3":
        for t in tasks:  # (k is reported as 1)
            if t["state"] in ("RUN", "SCHED", "DONE"):
                t["strats"] = t["strats"][:1]
                t["cur"]["k"] = 1
    if tight:
        # deadlines that leave room for the chain but not for much more
        depth = [0] * n
        for i in range(n):
            depth[i] = 1 + max([depth[p - 1] for p in parents[i]], default=0)
        for i, t in enumerate(tasks):
            if t["state"] in ("REL", "VIRT"):
                t["deadline"] = NOW + 4 * depth[i] + (2 if mode in ("run", "sched") else 0)
    name = f"{policy}/{shape}/{mode}/w{'+'.join(map(str, workers))}/{skind}/g{grid}{'/tight' if tight else ''}{'/retract' if (retract and policy != 'TSG') or (retract is False and policy == 'TSG') else ''}"
    if retract is False and policy == "TSG":
        name = name.replace("/retract", "/noretract")
    inst = mk_inst(name, policy, tasks, workers, now=NOW, horizon=NOW + 10, grid=grid,
                   enforce=True, **opts)
    if policy == "TSG":
        inst["opts"]["plan_ahead"] = inst["horizon"] - NOW if not tight else -1
    return inst


# ---------------------------------------------------------------------------
# second strengthening round: a co-offered predecessor that CANNOT be placed while its descendants can
#   why = missing  : it demands a resource type no worker of the cluster has
#         big      : it demands more than any worker has
#         held     : every worker that fits it is fully held by a RUNNING task of another graph beyond the horizon
#         sched    : ... by a SCHEDULED task of another graph that cannot move (its deadline is its planned finish),
#                    and the predecessor's own deadline is over before that task ends
#         deadline : its deadline is already hopeless (enforce_deadlines)
#   shapes: chain2 (the source), chain3 (the MIDDLE task), join (one of the two parents), diamond (one branch)
# Two resource types (r, q); the ordinary tasks need r only.

UNPL_BAD = {"chain2": 0, "chain3": 1, "join": 1, "diamond": 2}
UNPL_WHY = ("missing", "big", "held", "sched", "deadline")


def unplaceable_instance(policy, shape, why, offer, layout, split=None):
    if policy == "Z3" and why in ("sched", "deadline"):
        return None  # Z3: SCHEDULED tasks are outside its model, its deadline constraint is soft
    parents = SHAPES[shape]
    n = len(parents)
    bad = UNPL_BAD[shape]
    two = layout == "two"  # two workers
    q_cap = 0 if why == "missing" else 1
    workers = [[1, q_cap], [2, 0]] if two else [[2, q_cap]]
    horizon = NOW + 8
    tasks = []
    for i, par in enumerate(parents):
        st = [{"dem": [1, 0], "rt": 2}] if (policy == "Z3" or i % 2 == 0) else [{"dem": [1, 0], "rt": 2}, {"dem": [2, 0], "rt": 1}]
        tasks.append(mk_task(par, st, state="REL", release=0, deadline=LOOSE))
    b = tasks[bad]
    if why == "missing":
        b["strats"] = [{"dem": [0, 1], "rt": 2}] if not two else [{"dem": [1, 1], "rt": 2}]
    elif why == "big":
        b["strats"] = [{"dem": [3, 0], "rt": 2}] if (policy == "Z3" or two) else [{"dem": [3, 0], "rt": 2}, {"dem": [1, 2], "rt": 3}]
    elif why == "held":
        b["strats"] = [{"dem": [0, 1], "rt": 2}] if not two else [{"dem": [1, 1], "rt": 2}]
        tasks.append(mk_task([], [{"dem": [0, 1] if not two else [1, 1], "rt": 30}], state="RUN", release=0, deadline=60, graph="H",
                             cur={"w": 1, "s": NOW - 1, "k": 1}))
    elif why == "sched":
        b["strats"] = [{"dem": [0, 1], "rt": 2}]
        b["deadline"] = NOW + 11
        tasks.append(mk_task([], [{"dem": [0, 1], "rt": 12}], state="SCHED", release=0, deadline=NOW + 13, graph="H",
                             cur={"w": 1, "s": NOW + 1, "k": 1}))
    elif why == "deadline":
        b["strats"] = [{"dem": [1, 0], "rt": 3}] if policy == "Z3" else [{"dem": [1, 0], "rt": 3}, {"dem": [1, 0], "rt": 5}]
        b["deadline"] = NOW + 2
    opts = {"rtg": policy == "ILP_RTG", "lookahead": 0, "retract": False, "plan_ahead": -1}
    if policy == "TSG":
        opts["retract"] = why != "sched"
    if offer == "virt":
        for i in range(n):
            if parents[i]:
                tasks[i]["state"], tasks[i]["release"] = "VIRT", -1
        if policy == "ILP":
            opts["lookahead"] = 20
        else:
            opts["rtg"] = True
    name = f"{policy}/{shape}/unpl_{why}/{offer}/{layout}{'/' + split if split else ''}"
    inst = mk_inst(name, policy, tasks, workers, now=NOW, horizon=horizon, grid=1, enforce=True, **opts)
    if policy == "TSG":
        inst["opts"]["plan_ahead"] = horizon - NOW
    if split:
        inst["wsplit"] = split
    return inst


def variant_instances():
    """two classes of inputs on the ordinary shapes: workers that list a capacity under several resource ids of one
    name (mode `multi`), times handed to the code in mixed EventTime units, same microsecond values (mode `units`)"""
    out = []
    for policy in POLICIES:
        for shape in ("chain2", "join", "fork", "chain3"):
            for split in ("ones", "uneven"):
                for workers in ([2], [3], [2, 1]):
                    i = build_instance(policy, shape, "rel" if shape != "chain3" else "virt", workers, "two" if policy != "Z3" else "one")
                    if i is None:
                        continue
                    i = json.loads(json.dumps(i))
                    parts = i["name"].split("/")
                    i["name"] = "/".join(parts[:2] + ["multi"] + parts[2:] + [split])
                    i["wsplit"] = split
                    if workers == [3]:
                        for t in i["tasks"]:
                            t["strats"][0]["dem"] = 2  # two tasks do not fit side by side on 2 + 1
                    out.append(i)
        for shape in ("chain2", "join", "fork"):
            for ux, units in enumerate((
                {"rt": "MS", "deadline": "US", "release": "US", "now": "US", "grid": "US"},
                {"rt": "US", "deadline": "MS", "release": "MS", "now": "MS", "grid": "MS"},
                {"rt": "MS", "deadline": "S", "release": "US", "now": "MS", "cur": "MS", "grid": "US"},
            )):
                # (Z3 with a RUNNING parent is a known finding of its own: nothing to learn from it on another clock)
                for mode in ("rel", "virt", "run") if policy != "Z3" else ("rel", "virt"):
                    i = build_instance(policy, shape, mode, [2] if ux != 1 else [1, 1], "two" if (policy != "Z3" and ux != 2) else "one",
                                       tight=(ux == 1))
                    if i is None:
                        continue
                    i = json.loads(json.dumps(i))
                    parts = i["name"].split("/")
                    i["name"] = "/".join(parts[:2] + ["units"] + parts[2:] + [f"u{ux}"])
                    cc.scale_times(i, 1000)
                    if units["deadline"] == "S":
                        for t in i["tasks"]:
                            t["deadline"] = 1000000  # one second
                    i["units"] = units
                    out.append(i)
    return out


def fit_horizon(inst, max_product):
    """shrink the enumeration horizon until the raw decision space is small enough (the offered
    set is not known before the call: assume every non-placed task is decided)"""
    probe = json.loads(json.dumps(inst))
    for t in probe["tasks"]:
        t["dec"] = t["state"] in ("REL", "VIRT", "SCHED")
    h = inst["horizon"]
    step = inst["grid"]
    if inst.get("units") and step == 1:
        # microsecond decisions over milliseconds: no enumeration (R is skipped as too large), the horizon stays
        inst["_product"] = max_product + 1
        return inst
    while h > inst["now"] + 6 * step and cc.options_product(dict(probe, horizon=h)) > max_product:
        h -= step
    inst["_product"] = cc.options_product(dict(probe, horizon=h))
    inst["horizon"] = h
    if inst["policy"] == "TSG" and inst["opts"]["plan_ahead"] >= 0:
        inst["opts"]["plan_ahead"] = h - inst["now"]
    return inst


def all_instances():
    out = []
    for policy in POLICIES:
        for shape in ("chain2", "chain3", "fork", "join", "diamond"):
            for mode in ("rel", "virt", "partial", "run", "sched", "done_run"):
                for workers in ([1], [2], [1, 1], [2, 1]):
                    for skind in ("one", "two"):
                        grids = (1, 2) if policy == "TSG" else (1,)
                        for grid in grids:
                            for tight in (False, True):
                                retr = [None]
                                if mode == "sched":
                                    retr = [None, (policy != "TSG")]
                                for r in retr:
                                    if grid == 2 and (tight or skind == "two"):
                                        continue
                                    i = build_instance(policy, shape, mode, workers, skind, grid, tight, r)
                                    if i is not None:
                                        out.append(i)
    for policy in POLICIES:
        for shape in UNPL_BAD:
            for why in UNPL_WHY:
                for offer in ("rel", "virt"):
                    for layout in ("one", "two"):
                        for split in (None, "ones"):
                            if split and (layout == "two" or why not in ("big", "held")):
                                continue
                            i = unplaceable_instance(policy, shape, why, offer, layout, split)
                            if i is not None:
                                out.append(i)
    out += variant_instances()
    seen, uniq = set(), []
    for i in out:
        if i["name"] not in seen:
            seen.add(i["name"])
            uniq.append(i)
    return uniq


def quick_selection(insts, n, rnd, max_product):
    """every (policy, mode) pair, every shape, both strategy kinds, 1 and 2 workers; the rest seeded;
    instances whose decision space fits the enumeration bound are preferred"""
    small = [i for i in insts if i.get("_product", 0) <= max_product or i.get("units")]
    insts = small if len(small) >= n else insts
    by = {}
    for i in insts:
        p, shape, mode = i["name"].split("/")[:3]
        by.setdefault((p, mode), []).append(i)
    sel, names = [], set()
    shapes_used = {}
    for key in sorted(by):
        cands = list(by[key])
        rnd.shuffle(cands)
        # prefer a shape this policy has not used yet, small ones first for speed
        # Z3 raises ("invalid extract application", a C10 matter) when a worker is partially occupied, and
        # never places anything on a single fully occupied worker: the quick tier takes its Z3
        # running-parent instances from two single-unit workers
        crashy = lambda i: i["policy"] == "Z3" and key[1] in ("run", "done_run") and i["workers"] != [1, 1]  # noqa: E731
        cands.sort(key=lambda i: (crashy(i), shapes_used.get((key[0], i["name"].split("/")[1]), 0), len(i["tasks"])))
        c = cands[0]
        sel.append(c)
        names.add(c["name"])
        shapes_used[(key[0], c["name"].split("/")[1])] = shapes_used.get((key[0], c["name"].split("/")[1]), 0) + 1
    rest = [i for i in insts if i["name"] not in names]
    rnd.shuffle(rest)
    for i in rest:
        if len(sel) >= n:
            break
        sel.append(i)
    return sel


# ---------------------------------------------------------------------------


def _job(tag, insts, cfg):
    return cc.run_chunk(tag, insts, "precedence", cfg)


def absorb(res, outs, recs_offset=0):
    """collect the records of all chunks, number them"""
    recs = []
    for o in outs:
        for r in o["records"]:
            r["id"] = len(recs) + 1
            recs.append(r)
    return recs


def key_of(inst, what):
    """policy + circumstance (how the graph is offered / state of the parents) + clause; the exact
    instance (shape, workers, strategies) is in the violation's `what` and detail"""
    policy, _shape, mode = inst["name"].split("/")[:3]
    return f"{policy}/{mode}|{what}"


def run(tier: str) -> CheckResult:
    res = CheckResult("C11", tier)
    cfg = dict(CFG[tier], seed=seed(), models=True)
    rnd = rng("c11")
    insts = [fit_horizon(i, cfg["max_product"]) for i in all_instances()]
    if len(insts) > cfg["n_inst"]:
        insts = quick_selection(insts, cfg["n_inst"], rnd, cfg["max_product"])
    # balance the chunks: big decision spaces spread over the chunks
    insts.sort(key=lambda i: -len(i["tasks"]))
    parts = [insts[k::cfg["chunks"]] for k in range(cfg["chunks"])]
    jobs = [(f"c11/{k}", p, cfg) for k, p in enumerate(parts) if p]
    t0 = time.time()
    outs = parallel(_job, jobs, procs=cfg["chunks"])
    t_jobs = time.time() - t0
    recs = absorb(res, outs)
    t0 = time.time()
    fails, stats, truns = cc.judge_parallel(recs, batch=min(cfg["judge_batch"], max(100, -(-len(recs) // 14))), procs=cfg["chunks"])
    t_judge = time.time() - t0
    for tr in truns:
        res.states += tr["distinct"]
        res.transitions += tr["generated"]
    res.extra["tlc_record_runs"] = truns
    res.traces_validated = len(recs)
    byid = {r["id"]: r for r in recs}
    counters, notes = {}, []
    for o in outs:
        for k, v in o["counters"].items():
            counters[k] = counters.get(k, 0) + v
        notes += o["notes"]
        if "tlc" in o:
            res.states += o["tlc"]["distinct"]
            res.transitions += o["tlc"]["generated"]
    conv = {}
    wf = 0
    for rid, clauses in sorted(fails.items()):
        r = byid[rid]
        for c in clauses:
            if c == "harness.wf":
                wf += 1
                notes.append(f"record of {r['inst']['name']} ({r['src']}) is not well formed: {r['dec']}")
                continue
            if c.startswith("conv."):
                conv[c] = conv.get(c, 0) + 1
                continue
            if not c.startswith("C11."):
                continue
            if r["src"] == "pool":
                clause, what = "C11.model_solution", f"a feasible solution of the {r['inst']['policy']} model violates {c}"
            else:
                clause, what = c, f"the plan returned by {r['inst']['policy']} violates {c}"
            res.violate(
                clause, f"{what} [{r['inst']['name']}]",
                {"instance": cc.compact_inst(r["inst"], r["dec"]), "source": r["src"], "failed_clause": c, "raw": {"inst": r["inst"], "dec": r["dec"]}},
                key=key_of(r["inst"], c if r["src"] == "returned" else f"model_solution:{c}"),
            )
    if wf:
        raise cc.tlc.TLCMachineryError(f"{wf} malformed records: {notes[-3:]}")
    r_checked = r_complete = 0
    for o in outs:
        for rr in o["r"]:
            r_checked += 1
            r_complete += 1 if rr["complete"] else 0
            if rr["n_admitted"]:
                a = rr["admitted"][0]
                res.violate(
                    "C11.model_admits_violating_plan",
                    f"the {rr['inst']['policy']} model admits a plan that violates only precedence [{rr['name']}]",
                    {
                        "instance": cc.compact_inst(rr["inst"], cc.dec_of_compact(rr["inst"], a["plan"])),
                        "margin": a["margin"], "admitted_plans": rr["n_admitted"], "of_checked": rr["checked"],
                        "examples": rr["admitted"], "raw": {"inst": rr["inst"]},
                    },
                    key=key_of(rr["inst"], "model_admits_violating_plan"),
                )
    res.extra.update({
        "instances": len(insts),
        "instances_by_policy": {p: sum(1 for i in insts if i["policy"] == p) for p in POLICIES},
        "instances_by_class": {c: sum(1 for i in insts if i["name"].split("/")[2] == c) for c in sorted({i["name"].split("/")[2] for i in insts})},
        "instances_with_capacity_under_several_resource_ids": sum(1 for i in insts if i.get("wsplit")),
        "instances_in_mixed_time_units": sum(1 for i in insts if i.get("units")),
        "instances_with_two_resource_types": sum(1 for i in insts if cc.n_res(i) > 1),
        "unplaceable_predecessor": {
            "instances": sum(1 for i in insts if "/unpl_" in i["name"]),
            "by_shape": {sh: sum(1 for i in insts if "/unpl_" in i["name"] and i["name"].split("/")[1] == sh) for sh in UNPL_BAD},
            "returned_plans": sum(1 for r in recs if r["src"] == "returned" and "/unpl_" in r["inst"]["name"]),
            "pool_solutions": sum(1 for r in recs if r["src"] == "pool" and "/unpl_" in r["inst"]["name"]),
            "r_instances": sum(1 for o in outs for x in o["r"] if "/unpl_" in x["name"]),
            "r_plans_fixed_in_model": sum(x["checked"] for o in outs for x in o["r"] if "/unpl_" in x["name"]),
        },
        "records_returned": sum(1 for r in recs if r["src"] == "returned"),
        "records_pool": sum(1 for r in recs if r["src"] == "pool"),
        "counters": counters,
        "r_instances": r_checked, "r_instances_all_plans_checked": r_complete,
        "record_stats": dict(zip(cc.STAT_NAMES, stats)),
        "convention_level_mismatches (notes, not violations)": conv,
        "timing_s": {"jobs": round(t_jobs, 1), "judge": round(t_judge, 1), "chunks": [o["timing"] for o in outs]},
        "constants": {k: v for k, v in cfg.items()},
    })
    for r in recs[:200]:
        if r["src"] == "returned" and len(res.samples) < 6 and any(d["kind"] == "place" for d in r["dec"]) and len(r["inst"]["tasks"]) >= 3:
            res.samples.append({"instance": cc.compact_inst(r["inst"], r["dec"]), "verdict": fails.get(r["id"], "ok")})
    for o in outs:
        for rr in o["r"]:
            if len(res.samples) < 8 and rr["enumerated"] > 0:
                res.samples.append({"R": rr["name"], "plans_violating_only_precedence": rr["enumerated"], "fixed_in_model": rr["checked"], "feasible": rr["n_admitted"]})
    res.notes += notes[:40]
    res.notes.append(
        "covered: ILP (task-by-task with RELEASED graphs / lookahead, and release_taskgraphs), TetriSched-Gurobi "
        "(retract on/off, discretisation 1-2, explicit and default plan_ahead), Z3 (one strategy per task: it reports none); "
        "co-offered predecessors that fit no worker (resource type missing, demand too large, workers held by RUNNING / SCHEDULED tasks of "
        "another graph, hopeless deadline) with placeable descendants; capacities listed under several resource ids; mixed EventTime units; "
        "T2/R on the captured Gurobi models and on the hard assertions of the captured z3.Optimize; TetriSched-CPLEX has no DAG support and is not part of C11"
    )
    res.assumptions += [
        "TLC; Gurobi's / z3's INFEASIBLE / unsat answers on models with all decision variables fixed; the solution pool is a sample "
        "of the feasible set (cap in constants), the R direction is exhaustive inside the instance horizon unless `complete` is false",
        "the projection of Placements / solver variables to (placed?, worker, start, strategy) by variable name (harness/c11c12_common.py)",
        "statement level: start(child) >= start(parent) + runtime of the parent's chosen strategy (Z3: its remaining time = slowest strategy), "
        ">= expected finish of RUNNING / SCHEDULED parents; the +1 gaps / slowest-runtime conventions of the policies (DESIGN 7) only shape the "
        "enumerated decision space and are reported as conv.* notes",
    ]
    return res


def replay(d) -> int:
    """re-run the instance of a stored violation against the current tree"""
    raw = d["detail"].get("raw", {})
    inst = raw.get("inst")
    if not inst:
        return 0
    inst2, dec, info, handle = cc.realize(inst)
    print(json.dumps(cc.compact_inst(inst2, dec), indent=1))
    fails, _, _ = cc.judge_records([{"id": 1, "src": "returned", "inst": inst2, "dec": dec}])
    print("failing clauses of the returned plan:", fails.get(1, []))
    return 1 if any(c.startswith("C11.") for c in fails.get(1, [])) else 0
