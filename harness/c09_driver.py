"""C09 — fresh-process driver for the workload loaders of /repo/data that main.py constructs but does not run.

    cd <repo> && PYTHONHASHSEED=<h> python <this file> --c09_loader=<pylot|clockwork_bursty> --flagfile=F
                                                       --random_seed=N --csv=.. --log=..

main.py builds TaskLoaderPylot / WorkloadLoaderClockworkBursty in `--execution_mode=replay` and then raises
NotImplementedError ("does not yet support dynamic workloads").  This driver performs the steps of main.main around
that raise with the objects main.main itself would use: the flag definitions of main.py (imported, not copied), the
seeding (`random.seed(FLAGS.random_seed)`), the csv logger with the `input_flag` echo, the loader constructed from the
flags, `Workload.from_task_graphs` / the loader's own workload handed to the Simulator through a one-shot
BaseWorkloadLoader (the MockWorkloadLoader of /repo/tests/test_simulator.py), the policy and WorkerLoader constructed as
in main.main, `Simulator(...).simulate()`.  It decides nothing and compares nothing: the CSV file it leaves behind is
the trace that harness/c09.py ships to TLC (spec/Determinism.tla).
"""
import os
import random
import sys

sys.path.insert(0, os.getcwd())

from absl import app, flags  # noqa: E402

import main as erdos_main  # noqa: E402,F401  (defines every flag of main.py)
from data import (  # noqa: E402
    BaseWorkloadLoader,
    TaskLoaderPylot,
    WorkerLoader,
    WorkloadLoader,
    WorkloadLoaderClockworkBursty,
)
from simulator import Simulator  # noqa: E402
from utils import EventTime, setup_csv_logging, setup_logging  # noqa: E402
from workload import Workload  # noqa: E402

FLAGS = flags.FLAGS

flags.DEFINE_enum("c09_loader", None, ["pylot", "clockwork_bursty"], "loader of /repo/data to drive")
flags.DEFINE_string("c09_pylot_profile", None, "Pylot JSON profile (list of callback entries) for TaskLoaderPylot")
flags.DEFINE_integer("c09_cb_warmup_us", 20000, "WorkloadLoaderClockworkBursty.warmup_duration")
flags.DEFINE_integer("c09_cb_activation_us", 10000, "WorkloadLoaderClockworkBursty.model_activation_period")
flags.DEFINE_integer("c09_cb_models", 3, "WorkloadLoaderClockworkBursty.max_active_models")
flags.DEFINE_float("c09_cb_minor_rate", 200.0, "WorkloadLoaderClockworkBursty.minor_request_rate")
flags.DEFINE_float("c09_cb_major_rate", 1000.0, "WorkloadLoaderClockworkBursty.major_request_rate")


class OneShotWorkloadLoader(BaseWorkloadLoader):
    def __init__(self, workload):
        self._released = False
        self._workload = workload

    def get_next_workload(self, current_time):
        if self._released:
            return None
        self._released = True
        return self._workload


def make_scheduler():
    rt = EventTime(FLAGS.scheduler_runtime, EventTime.Unit.US)
    if FLAGS.scheduler == "FIFO":
        from schedulers import FIFOScheduler

        return FIFOScheduler(preemptive=FLAGS.preemption, runtime=rt, _flags=FLAGS)
    if FLAGS.scheduler == "EDF":
        from schedulers import EDFScheduler

        return EDFScheduler(preemptive=FLAGS.preemption, runtime=rt, enforce_deadlines=FLAGS.enforce_deadlines,
                            _flags=FLAGS)
    if FLAGS.scheduler == "LSF":
        from schedulers import LSFScheduler

        return LSFScheduler(preemptive=FLAGS.preemption, runtime=rt, _flags=FLAGS)
    if FLAGS.scheduler == "Clockwork":
        from schedulers import ClockworkScheduler

        return ClockworkScheduler(runtime=rt, goal=FLAGS.clockwork_goal, _flags=FLAGS)
    raise ValueError(f"c09_driver: scheduler {FLAGS.scheduler} is not driven")


def main(args):
    for name in (FLAGS.log_file_name, FLAGS.csv_file_name):
        if name is not None and os.path.exists(name):
            os.remove(name)
    random.seed(FLAGS.random_seed)
    setup_logging(name="__main__", log_dir=FLAGS.log_dir, log_file=FLAGS.log_file_name, log_level=FLAGS.log_level)
    csv_logger = setup_csv_logging(name="__main__", log_dir=FLAGS.log_dir, log_file=FLAGS.csv_file_name)
    for flag_name in FLAGS:
        csv_logger.debug(f"input_flag,{flag_name},{getattr(FLAGS, flag_name)}")

    if FLAGS.c09_loader == "pylot":
        workload_loader = WorkloadLoader(path=FLAGS.workload_profile_path, _flags=FLAGS)
        job_graph = workload_loader.workload.get_job_graph("pylot_dataflow")
        task_loader = TaskLoaderPylot(job_graph=job_graph, graph_name="pylot_dataflow",
                                      profile_path=FLAGS.c09_pylot_profile, _flags=FLAGS)
        if FLAGS.timestamp_difference != -1:
            task_loader.get_task_graph().dilate(EventTime(FLAGS.timestamp_difference, EventTime.Unit.US))
        workload = Workload.from_task_graphs({"pylot_dataflow": task_loader.get_task_graph()}, _flags=FLAGS)
    else:
        workload = WorkloadLoaderClockworkBursty(
            warmup_duration=EventTime(FLAGS.c09_cb_warmup_us, EventTime.Unit.US),
            model_activation_period=EventTime(FLAGS.c09_cb_activation_us, EventTime.Unit.US),
            max_active_models=FLAGS.c09_cb_models,
            minor_request_rate=FLAGS.c09_cb_minor_rate,
            major_request_rate=FLAGS.c09_cb_major_rate,
            _flags=FLAGS,
        ).workload

    scheduler = make_scheduler()
    worker_loader = WorkerLoader(worker_profile_path=FLAGS.worker_profile_path, _flags=FLAGS)
    simulator = Simulator(
        worker_pools=worker_loader.get_worker_pools(),
        scheduler=scheduler,
        workload_loader=OneShotWorkloadLoader(workload),
        loop_timeout=EventTime(FLAGS.loop_timeout, EventTime.Unit.US),
        scheduler_frequency=EventTime(FLAGS.scheduler_frequency, EventTime.Unit.US),
        _flags=FLAGS,
    )
    simulator.simulate()


if __name__ == "__main__":
    app.run(main)
