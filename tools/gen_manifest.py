#!/usr/bin/env python3
"""Regenerate MANIFEST.json from the table below (keeps it schema-valid)."""
import json
import os

HERE = os.path.dirname(os.path.dirname(os.path.abspath(__file__)))
PY = "PYTHONPATH=/repo PYTHONHASHSEED=0 /venv/bin/python run.py"

CHECKS = {
    "C04": dict(
        text="TLC checks Ledger.tla and Cluster.tla exhaustively (conservation, held-iff-resident, idle-means-full, copy independence) "
        "for small resource vectors; the reachable graphs are then replayed edge by edge on real Resources / WorkerPool objects "
        "(all paths to depth 3-4, an edge-covering walk, random walks) comparing every public getter with the spec's observation variable.",
        design_ref="DESIGN.md §5 C04",
        note="trusted: TLC, the dot-dump parser, the projection through public getters; bounded to the constants in harness/c04.py",
        technique="TLA+ state machine (Ledger/Cluster) model-checked with TLC + spec->code replay of the dumped state graph",
    ),
}

ALL = [f"C{i:02d}" for i in range(1, 21)]
NOT_YET = "check under construction in this round (specification module not bound to the code yet)"


def main():
    checks = []
    for pid, c in CHECKS.items():
        checks.append(
            {
                "property_id": pid,
                "quick_cmd": f"{PY} --property {pid} --tier quick",
                "thorough_cmd": f"{PY} --property {pid} --tier thorough",
                "evidence_file": f"/verif/evidence/{pid}.json",
                "replay_cmd_template": f"{PY} --replay {{path}}",
                "engine": "tla-mbv",
                "level_claimed": {
                    "category": c.get("category", "model_checking"),
                    "text": c["text"],
                    "design_ref": c["design_ref"],
                },
                "level_note": c["note"],
                "technique": c["technique"],
            }
        )
    na = [{"property_id": p, "reason": NOT_YET} for p in ALL if p not in CHECKS]
    m = {
        "version": 1,
        "setup_cmd": "cd /verif && /venv/bin/python run.py --setup",
        "hooks": {
            "guard": "ERDOS_VERIF_TRACE",
            "enable": "no source hooks: the harness installs add-only wrappers from outside the repository when ERDOS_VERIF_TRACE=1 (harness/tracer.py)",
            "baseline_off_cmd": "cd /repo && /venv/bin/python -m pytest -ra -q -p no:cacheprovider --timeout=900 --continue-on-collection-errors",
            "source_commits": [],
            "add_only": True,
        },
        "engines": [
            {
                "name": "tla-mbv",
                "path": "/verif/run.py",
                "serves_properties": sorted(CHECKS),
                "kind_free_text": "explicit TLA+ specifications (spec/*.tla) checked with TLC; bound to the code by spec->code replay of TLC state graphs / behaviours and code->spec trace validation",
            }
        ],
        "checks": checks,
        "notes": "See DESIGN.md. known_findings.json lists recorded / fixed genuine defects.",
        "not_applicable": na,
    }
    with open(os.path.join(HERE, "MANIFEST.json"), "w") as f:
        json.dump(m, f, indent=1)
    print(f"{len(checks)} checks, {len(na)} not claimed")


if __name__ == "__main__":
    main()
