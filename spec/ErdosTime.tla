----------------------------- MODULE ErdosTime -----------------------------
(* utils.py `EventTime` as a value: <<count, unit>>, unit in {"us","ms","s"}. *)
(* The meaning of a time value is the exact integer number of microseconds    *)
(* Us(v); every operation of the class is specified by what it does to Us and *)
(* to the unit of the result.  The module is constant-level (no variables):   *)
(*  - the value operators (Eq, Lt, ..., Add, Sub, MulInt, To, IsInvalid),     *)
(*  - the laws, as named operators over one/two/three values (checked by TLC  *)
(*    over a grid, see harness/c16.py),                                       *)
(*  - Case* operators: the expected outcome of every call, dumped for replay  *)
(*    on the real class,                                                      *)
(*  - a limb representation of integers beyond TLC's 32 bits (sign + LimbN    *)
(*    little-endian limbs in base LimbBase) with LimbAdd/Sub/Cmp/MulSmall,    *)
(*    cross-checked against native integers where both exist, and             *)
(*  - Rec*: validation of recorded calls of the real class on big magnitudes. *)
EXTENDS Integers, Sequences

Units == {"us", "ms", "s"}
Factor(u) == CASE u = "us" -> 1 [] u = "ms" -> 1000 [] u = "s" -> 1000000

Cnt(v)  == v[1]
Unit(v) == v[2]
IsTime(v) == /\ v = <<v[1], v[2]>> /\ v[1] \in Int /\ v[2] \in Units

\* the exact number of microseconds
Us(v) == v[1] * Factor(v[2])

FinerEq(u1, u2) == Factor(u1) <= Factor(u2)          \* u1 is at least as fine as u2
Finer(u1, u2)   == IF FinerEq(u1, u2) THEN u1 ELSE u2

\* to(unit): defined only towards a finer-or-equal unit, refused (ValueError) towards a coarser one
CanTo(v, u) == FinerEq(u, v[2])
To(v, u)    == <<v[1] * (Factor(v[2]) \div Factor(u)), u>>

Eq(a, b) == Us(a) = Us(b)
Ne(a, b) == Us(a) # Us(b)
Lt(a, b) == Us(a) < Us(b)
Le(a, b) == Us(a) <= Us(b)
Gt(a, b) == Us(a) > Us(b)
Ge(a, b) == Us(a) >= Us(b)
Hash(a)  == Us(a)

Neg(a)       == <<0 - a[1], a[2]>>
Add(a, b)    == LET u == Finer(a[2], b[2]) IN <<To(a, u)[1] + To(b, u)[1], u>>
Sub(a, b)    == Add(a, Neg(b))
MulInt(a, k) == <<a[1] * k, a[2]>>

IsInvalid(v) == v[1] = -1
Zero    == <<0, "us">>
Invalid == <<-1, "us">>

----------------------------------------------------------------------------
(* Laws.  Each is a predicate over values; TLC evaluates them on every pair /  *)
(* triple of the grid.                                                         *)

\* the class computes == and < through a subtraction: sound in exact integers
LawEqViaSub(a, b)    == Eq(a, b) <=> (Cnt(Sub(a, b)) = 0)
LawLtViaSub(a, b)    == Lt(a, b) <=> (Cnt(Sub(a, b)) < 0)
LawTrichotomy(a, b)  == /\ (Lt(a, b) \/ Eq(a, b) \/ Gt(a, b))
                        /\ ~(Lt(a, b) /\ Eq(a, b)) /\ ~(Lt(a, b) /\ Gt(a, b)) /\ ~(Eq(a, b) /\ Gt(a, b))
LawOrderConsistent(a, b) ==
    /\ Le(a, b) <=> (Lt(a, b) \/ Eq(a, b))
    /\ Ge(a, b) <=> (Gt(a, b) \/ Eq(a, b))
    /\ Gt(a, b) <=> Lt(b, a)
    /\ Ne(a, b) <=> ~Eq(a, b)
    /\ Eq(a, b) <=> Eq(b, a)
LawHash(a, b)        == Eq(a, b) => Hash(a) = Hash(b)
LawAddUs(a, b)       == Us(Add(a, b)) = Us(a) + Us(b)
LawSubUs(a, b)       == Us(Sub(a, b)) = Us(a) - Us(b)
LawResultUnit(a, b)  == /\ Unit(Add(a, b)) = Finer(Unit(a), Unit(b))
                        /\ Unit(Sub(a, b)) = Finer(Unit(a), Unit(b))
LawAddComm(a, b)     == Add(a, b) = Add(b, a)
LawSubInverse(a, b)  == Eq(Add(Sub(a, b), b), a)
LawToExact(a)        == \A u \in Units : CanTo(a, u) => (Us(To(a, u)) = Us(a) /\ Unit(To(a, u)) = u)
LawToRefused(a)      == \A u \in Units : CanTo(a, u) <=> ~(Factor(u) > Factor(Unit(a)))
LawInvalid(a)        == /\ IsInvalid(a) <=> (Cnt(a) = -1)
                        /\ IsInvalid(Invalid) /\ ~IsInvalid(Zero)
LawMul(a, k)         == /\ Us(MulInt(a, k)) = k * Us(a) /\ Unit(MulInt(a, k)) = Unit(a)
                        /\ (k = 2 => Eq(MulInt(a, k), Add(a, a)))
                        /\ (k = 0 => Eq(MulInt(a, k), Zero))
                        /\ (k = -1 => MulInt(a, k) = Neg(a))
LawTransitive(a, b, c) == /\ (Lt(a, b) /\ Lt(b, c)) => Lt(a, c)
                          /\ (Eq(a, b) /\ Eq(b, c)) => Eq(a, c)
                          /\ (Le(a, b) /\ Le(b, c)) => Le(a, c)
LawAddAssoc(a, b, c)   == Add(Add(a, b), c) = Add(a, Add(b, c))
LawAddMonotone(a, b, c) == Lt(a, b) <=> Lt(Add(a, c), Add(b, c))

Abs(n) == IF n < 0 THEN 0 - n ELSE n
\* guard for the triple laws: the three magnitudes add up inside TLC's 32-bit integers
Fits3(a, b, c) == (Abs(Us(a)) \div 1000) + (Abs(Us(b)) \div 1000) + (Abs(Us(c)) \div 1000) < 2147000

----------------------------------------------------------------------------
(* Expected outcome of every call, one record per case (dumped as JSON and     *)
(* executed on the real class by the harness).                                 *)
Case2(a, b) ==
    [ a |-> a, b |-> b,
      eq |-> Eq(a, b), ne |-> Ne(a, b), lt |-> Lt(a, b), le |-> Le(a, b), gt |-> Gt(a, b), ge |-> Ge(a, b),
      ha |-> Hash(a), hb |-> Hash(b), add |-> Add(a, b), sub |-> Sub(a, b) ]
Case1(a) ==
    [ a |-> a, invalid |-> IsInvalid(a), hash |-> Hash(a),
      to |-> [u \in Units |-> IF CanTo(a, u) THEN [ok |-> TRUE, val |-> To(a, u)]
                                             ELSE [ok |-> FALSE, val |-> <<>>]] ]
CaseMul(a, k) == [a |-> a, k |-> k, mul |-> MulInt(a, k)]
Case3(a, b, c) == [a |-> a, b |-> b, c |-> c, l |-> Add(Add(a, b), c), r |-> Add(a, Add(b, c))]

----------------------------------------------------------------------------
(* Limb integers: [s |-> -1 | 0 | 1, m |-> <<l_1, ..., l_LimbN>>], little-endian *)
(* magnitude in base LimbBase, canonical (s = 0 iff all limbs are 0).  The two  *)
(* parameters are ordinary definitions so that a model can override them with a *)
(* tiny base and check the operators exhaustively against native integers.      *)
LimbBase == 32768
LimbN    == 5

LimbIdx  == 1..LimbN
MagZero  == [i \in LimbIdx |-> 0]
LimbZero == [s |-> 0, m |-> MagZero]
IsLimb(x) == /\ x.s \in {-1, 0, 1}
             /\ DOMAIN x.m = LimbIdx
             /\ \A i \in LimbIdx : x.m[i] \in 0..(LimbBase - 1)
             /\ (x.s = 0) <=> (x.m = MagZero)

Sgn(n) == IF n < 0 THEN -1 ELSE IF n = 0 THEN 0 ELSE 1

RECURSIVE DigitsFrom(_, _)
DigitsFrom(n, i) == IF i > LimbN THEN <<>> ELSE <<n % LimbBase>> \o DigitsFrom(n \div LimbBase, i + 1)
\* native integer -> limbs (every 32-bit integer fits as soon as LimbBase^LimbN > 2^31)
ToLimbs(n) == [s |-> Sgn(n), m |-> DigitsFrom(Abs(n), 1)]

\* magnitude comparison, most significant limb first: -1, 0, 1
RECURSIVE MagCmpFrom(_, _, _)
MagCmpFrom(x, y, i) ==
    IF i = 0 THEN 0
    ELSE IF x[i] < y[i] THEN -1
    ELSE IF x[i] > y[i] THEN 1
    ELSE MagCmpFrom(x, y, i - 1)
MagCmp(x, y) == MagCmpFrom(x, y, LimbN)

RECURSIVE MagAddFrom(_, _, _, _)
MagAddFrom(x, y, i, carry) ==
    IF i > LimbN THEN <<>>
    ELSE LET t == x[i] + y[i] + carry
         IN  <<t % LimbBase>> \o MagAddFrom(x, y, i + 1, t \div LimbBase)
MagAdd(x, y) == MagAddFrom(x, y, 1, 0)
RECURSIVE CarryOut(_, _, _, _)
CarryOut(x, y, i, carry) ==
    IF i > LimbN THEN carry ELSE CarryOut(x, y, i + 1, (x[i] + y[i] + carry) \div LimbBase)
MagAddFits(x, y) == CarryOut(x, y, 1, 0) = 0

\* x - y for MagCmp(x, y) >= 0
RECURSIVE MagSubFrom(_, _, _, _)
MagSubFrom(x, y, i, borrow) ==
    IF i > LimbN THEN <<>>
    ELSE LET t == x[i] - y[i] - borrow
         IN  IF t < 0 THEN <<t + LimbBase>> \o MagSubFrom(x, y, i + 1, 1)
                      ELSE <<t>> \o MagSubFrom(x, y, i + 1, 0)
MagSub(x, y) == MagSubFrom(x, y, 1, 0)

RECURSIVE MagMulFrom(_, _, _, _)
MagMulFrom(x, k, i, carry) ==
    IF i > LimbN THEN <<>>
    ELSE LET t == x[i] * k + carry
         IN  <<t % LimbBase>> \o MagMulFrom(x, k, i + 1, t \div LimbBase)
RECURSIVE MulCarryOut(_, _, _, _)
MulCarryOut(x, k, i, carry) ==
    IF i > LimbN THEN carry ELSE MulCarryOut(x, k, i + 1, (x[i] * k + carry) \div LimbBase)

LimbNeg(a) == [s |-> 0 - a.s, m |-> a.m]
LimbAdd(a, b) ==
    IF a.s = 0 THEN b
    ELSE IF b.s = 0 THEN a
    ELSE IF a.s = b.s THEN [s |-> a.s, m |-> MagAdd(a.m, b.m)]
    ELSE LET c == MagCmp(a.m, b.m)
         IN  IF c = 0 THEN LimbZero
             ELSE IF c > 0 THEN [s |-> a.s, m |-> MagSub(a.m, b.m)]
             ELSE [s |-> b.s, m |-> MagSub(b.m, a.m)]
LimbSub(a, b) == LimbAdd(a, LimbNeg(b))
\* -1 / 0 / 1 as a < b / a = b / a > b
LimbCmp(a, b) ==
    IF a.s # b.s THEN (IF a.s < b.s THEN -1 ELSE 1)
    ELSE IF a.s = 0 THEN 0
    ELSE a.s * MagCmp(a.m, b.m)
\* a * k for a native k with |k| < LimbBase
LimbMulSmall(a, k) ==
    IF k = 0 \/ a.s = 0 THEN LimbZero
    ELSE [s |-> a.s * Sgn(k), m |-> MagMulFrom(a.m, Abs(k), 1, 0)]
\* the result of the operation is representable in LimbN limbs
LimbAddFits(a, b)      == (a.s = 0 \/ b.s = 0 \/ a.s # b.s) \/ MagAddFits(a.m, b.m)
LimbMulSmallFits(a, k) == Abs(k) < LimbBase /\ MulCarryOut(a.m, Abs(k), 1, 0) = 0

\* the limb operators agree with the native ones (x, y, k native; checked wherever the native result exists)
LimbLawAdd(x, y) == LimbAdd(ToLimbs(x), ToLimbs(y)) = ToLimbs(x + y)
LimbLawSub(x, y) == LimbSub(ToLimbs(x), ToLimbs(y)) = ToLimbs(x - y)
LimbLawCmp(x, y) == LimbCmp(ToLimbs(x), ToLimbs(y)) = (IF x < y THEN -1 ELSE IF x = y THEN 0 ELSE 1)
LimbLawMul(x, k) == LimbMulSmall(ToLimbs(x), k) = ToLimbs(x * k)
LimbLawCanon(x)  == IsLimb(ToLimbs(x)) /\ LimbNeg(LimbNeg(ToLimbs(x))) = ToLimbs(x)
                    /\ LimbAdd(ToLimbs(x), LimbNeg(ToLimbs(x))) = LimbZero

----------------------------------------------------------------------------
(* Time values with limb counts, [c |-> limb integer, u |-> unit], and the     *)
(* validation of recorded calls of the real class (JSON records).  A record    *)
(* has `id`, `kind` and the operands / observed results; RecFailed(r) is the   *)
(* set of clauses the record violates.                                         *)
LUs(t) ==
    CASE t.u = "us" -> t.c
      [] t.u = "ms" -> LimbMulSmall(t.c, 1000)
      [] t.u = "s"  -> LimbMulSmall(LimbMulSmall(t.c, 1000), 1000)
LIsTime(t) == t.u \in Units /\ IsLimb(t.c)
LEq(a, b)  == LimbCmp(LUs(a), LUs(b)) = 0
LLt(a, b)  == LimbCmp(LUs(a), LUs(b)) < 0
\* an observed result {"ok": TRUE, "v": value} equals the expected value
Got(res, v) == res.ok /\ res.v = v
GotTime(res, us, u) == res.ok /\ res.v.u = u /\ IsLimb(res.v.c) /\ LUs(res.v) = us

RecPairFailed(r) ==
    LET a == r.a  b == r.b  ua == LUs(a)  ub == LUs(b)  c == LimbCmp(ua, ub)
        fu == Finer(a.u, b.u)
    IN  (IF Got(r.eq, c = 0) /\ Got(r.ne, c # 0) /\ Got(r.eqr, c = 0) THEN {} ELSE {"C16.eq"})
        \cup (IF Got(r.lt, c < 0) /\ Got(r.le, c <= 0) /\ Got(r.gt, c > 0) /\ Got(r.ge, c >= 0)
              THEN {} ELSE {"C16.order"})
        \cup (IF Got(r.ha, ua) /\ Got(r.hb, ub) /\ (c = 0 => (r.ha.ok /\ r.hb.ok /\ r.ha.v = r.hb.v)
                                                        /\ Got(r.hsame, TRUE))
              THEN {} ELSE {"C16.hash"})
        \cup (IF GotTime(r.add, LimbAdd(ua, ub), fu) THEN {} ELSE {"C16.add"})
        \cup (IF GotTime(r.sub, LimbSub(ua, ub), fu) THEN {} ELSE {"C16.sub"})
RecOneFailed(r) ==
    LET a == r.a  ua == LUs(a)
    IN  (IF \A u \in Units : CanTo(<<0, a.u>>, u) => GotTime(r.to[u], ua, u) THEN {} ELSE {"C16.to"})
        \cup (IF \A u \in Units : ~CanTo(<<0, a.u>>, u) => (~r.to[u].ok /\ r.to[u].err = "ValueError")
              THEN {} ELSE {"C16.to_refused"})
        \cup (IF Got(r.invalid, a.c = LimbNeg(ToLimbs(1))) THEN {} ELSE {"C16.invalid"})
RecMulFailed(r) ==
    IF GotTime(r.mul, LimbMulSmall(LUs(r.a), r.k), r.a.u) THEN {} ELSE {"C16.mul"}
\* pure integer records produced by Python's own big integers: validates the limb
\* operators themselves at full width (a failure is a machinery failure, not a verdict)
RecIntFailed(r) ==
    (IF LimbAdd(r.x, r.y) = r.sum THEN {} ELSE {"limb.add"})
    \cup (IF LimbSub(r.x, r.y) = r.diff THEN {} ELSE {"limb.sub"})
    \cup (IF LimbCmp(r.x, r.y) = r.cmp THEN {} ELSE {"limb.cmp"})
    \cup (IF LimbMulSmall(r.x, r.k) = r.prod THEN {} ELSE {"limb.mul"})
RecWellFormed(r) ==
    CASE r.kind = "pair" -> LIsTime(r.a) /\ LIsTime(r.b)
      [] r.kind = "one"  -> LIsTime(r.a)
      [] r.kind = "mul"  -> LIsTime(r.a) /\ LimbMulSmallFits(LUs(r.a), r.k)
      [] r.kind = "int"  -> IsLimb(r.x) /\ IsLimb(r.y) /\ LimbMulSmallFits(r.x, r.k)
      [] OTHER -> FALSE
RecFailed(r) ==
    IF ~RecWellFormed(r) THEN {"malformed"}
    ELSE CASE r.kind = "pair" -> RecPairFailed(r)
           [] r.kind = "one"  -> RecOneFailed(r)
           [] r.kind = "mul"  -> RecMulFailed(r)
           [] r.kind = "int"  -> RecIntFailed(r)
=============================================================================
