------------------------------- MODULE SimMC -------------------------------
(* Exhaustive exploration of the simulator loop of Simulator.tla on a small   *)
(* world with an ARBITRARY scheduling policy: at every SCHEDULER_START the     *)
(* policy may answer, for every offered task, nothing / unplaced / cancel /    *)
(* place on any pool now or later -- including full pools and plans for tasks  *)
(* whose predecessors have not finished.  All tie-breaks among equal events,   *)
(* all branch draws.  The simulator-side properties must hold regardless.      *)
EXTENDS Simulator

CONSTANTS MCW,        \* [pools, fl]  the cluster and the simulator flags
          MCTasks,    \* static task records (Simulator.tla `tk`), indices 1..N
          MCGraphs,   \* static graph records
          MCInit,     \* initial dynamic record per task
          SchedRt,    \* simulated scheduler runtime
          Frontier,   \* [la |-> lookahead, rtg |-> release_taskgraphs, retract |-> retract_schedules] of the policy
          Delays,     \* set of placement delays the policy may choose (relative to now + SchedRt)
          MaxInvocations, \* bound on scheduler invocations that return decisions (state-space bound)
          AllowCancel \* whether the policy may answer with a cancellation

VARIABLES S, phase, ninv
mcvars == <<S, phase, ninv>>

NPl == Len(MCW.pools)

InitS ==
    [ now |-> 0,
      q |-> << Ev(E_START, 0, 0, 0, NoPlan), Ev(E_UPDATE, 0, 0, 0, NoPlan), Ev(E_SCHED_START, 0, 0, 0, NoPlan) >>,
      fut |-> <<>>,
      sch |-> [last |-> 0, next |-> -1, pend |-> 0],
      ctr |-> [fin |-> 0, can |-> 0, miss |-> 0, gfin |-> 0, gmiss |-> 0],
      wl |-> <<>>,
      ts |-> MCInit, tk |-> MCTasks, gr |-> MCGraphs,
      cl |-> Flatten([p \in 1..NPl |-> [w \in 1..Len(MCW.pools[p]) |->
                [p |-> p, w |-> w, av |-> [i \in 1..Len(MCW.pools[p][w]) |-> MCW.pools[p][w][i].cap],
                 occ |-> <<>>, inpool |-> <<>>, pend |-> <<>>, avl |-> <<>>]]]),
      pd |-> [rt |-> 0, decs |-> <<>>] ]

Init == S = InitS /\ phase = "run" /\ ninv = 0

\* what the policy is offered: the transcription of get_schedulable_tasks with the policy's options
Offered(St) == Schedulable(St, St.now, Frontier.la, Frontier.retract, Frontier.rtg)

\* the answers the policy may give for one task: 0 = no answer
Options(St, t) ==
    {[kind |-> 0, t |-> t, placed |-> FALSE, pool |-> 0, wk |-> 0, sd |-> NoSD, tm |-> -1, pr |-> 0],
     [kind |-> 4, t |-> t, placed |-> FALSE, pool |-> 0, wk |-> 0, sd |-> NoSD, tm |-> -1, pr |-> 0],
     [kind |-> IF AllowCancel THEN 3 ELSE 0, t |-> t, placed |-> FALSE, pool |-> 0, wk |-> 0, sd |-> NoSD, tm |-> -1, pr |-> 0]}
    \cup
    {[kind |-> 4, t |-> t, placed |-> TRUE, pool |-> p, wk |-> 0,
      sd |-> [dem |-> St.tk[t].strats[k].dem, rt |-> St.tk[t].strats[k].rt, bs |-> St.tk[t].strats[k].bs, bid |-> 0],
      tm |-> St.now + SchedRt + d, pr |-> 0]
        : p \in 1..NPl, k \in 1..Len(St.tk[t].strats), d \in Delays}

\* a SCHEDULED task whose pending placement fires before this answer is applied is left alone (answering
\* for a task that has started is outside every policy's contract, C10)
OptionsFor(St, t) ==
    IF St.ts[t].st = SCHEDULED /\ St.ts[t].plan.tm <= St.now + SchedRt
    THEN {o \in Options(St, t) : o.kind = 0} ELSE Options(St, t)
RECURSIVE AnsSeqs(_, _)
AnsSeqs(St, off) ==
    IF off = <<>> THEN {<<>>}
    ELSE {(IF o.kind = 0 THEN <<>> ELSE <<o>>) \o rest : o \in OptionsFor(St, Head(off)), rest \in AnsSeqs(St, Tail(off))}
Answers(St) ==
    LET off == Offered(St) IN
    IF ninv >= MaxInvocations \/ off = <<>> THEN {<<>>} ELSE AnsSeqs(St, off)

Draws(St, e) ==
    IF e.ty = E_FINISHED /\ St.tk[e.t].cond
    THEN LET ch == Children(St, e.t)
             pos == {c \in Range(ch) : St.ts[c].prob > 0}
         IN  IF pos = {} THEN {0} ELSE pos
    ELSE {0}

\* closed loop: MCGraphs lists every invocation; those with init = FALSE are dormant until an invocation of the same
\* job graph completes (Workload.notify_task_graph_completion -> JobGraph.get_next_task_graph(finish + 1))
Dormant(St, jg) == {g \in 1..Len(St.gr) : St.gr[g].jg = jg /\ g \notin Range(St.wl)}
ClosedNew(St, e) ==
    IF e.ty = E_FINISHED /\ St.gr[GraphOf(St, e.t)].closed /\ Dormant(St, St.gr[GraphOf(St, e.t)].jg) # {}
       /\ GComplete([St EXCEPT !.ts[e.t].st = COMPLETED], GraphOf(St, e.t))
    THEN <<CHOOSE g \in Dormant(St, St.gr[GraphOf(St, e.t)].jg) : \A h \in Dormant(St, St.gr[GraphOf(St, e.t)].jg) : g <= h>>
    ELSE <<>>
Materialise(St, gs) ==
    IF gs = <<>> THEN St
    ELSE [St EXCEPT !.ts = [t \in 1..NT(St) |->
            IF St.tk[t].g = gs[1] /\ St.tk[t].src THEN [St.ts[t] EXCEPT !.rel = St.now + 1, !.irel = St.now + 1] ELSE St.ts[t]]]

\* the state after the pending decisions have been applied (for the frontier seen by __get_next_scheduler_event)
AfterDecs(St) == ApplyDecs(MCW, St, St.pd.decs, <<>>, "", 0).S

\* the workload loader: the graphs with init = TRUE are handed over in batches (gr[g].batch, default 1), one batch per
\* UPDATE_WORKLOAD, added to the same workload; when nothing is left the loader answers None
BatchOf(St, g) == IF "batch" \in DOMAIN St.gr[g] THEN St.gr[g].batch ELSE 1
NotHanded(St) == {g \in 1..Len(St.gr) : St.gr[g].init /\ g \notin Range(St.wl)}
NextBatch(St) ==
    IF NotHanded(St) = {} THEN <<>>
    ELSE LET b == CHOOSE b \in {BatchOf(St, g) : g \in NotHanded(St)} : \A g \in NotHanded(St) : b <= BatchOf(St, g)
         IN  SelectSeq([g \in 1..Len(St.gr) |-> g], LAMBDA g : g \in NotHanded(St) /\ BatchOf(St, g) = b)
Bind(St, e, draw, ans) ==
    [ draw |-> draw,
      upd |-> e.ty = E_UPDATE /\ NotHanded(St) # {},
      newg |-> IF e.ty = E_UPDATE THEN NextBatch(St) ELSE ClosedNew(St, e),
      fuzz |-> IF e.ty = E_PLACEMENT THEN St.ts[e.t].rem ELSE 0,
      decs |-> [rt |-> SchedRt, decs |-> ans],
      offered1 |-> Offered(St),
      offered2 |-> IF e.ty = E_SCHED_FIN THEN Offered(AfterDecs(St)) ELSE <<>> ]

\* one iteration of the loop of simulate()
Loop ==
    /\ phase = "run"
    /\ LET c == LoopChoice(S) IN
       IF ~c.pop
       THEN /\ S' = DoStep(S, c.size) /\ UNCHANGED <<phase, ninv>>
       ELSE LET S1 == DoStep(S, c.size) IN
            \E i \in PopCandidates(S1) :
              LET e == S1.q[i]
                  S2 == Materialise(QRemove(S1, e), ClosedNew(QRemove(S1, e), e))
              IN  \E draw \in Draws(S2, e) :
                  \E ans \in (IF e.ty = E_SCHED_START THEN Answers(S2) ELSE {<<>>}) :
                     LET h == Handle(MCW, S2, e, Bind(S2, e, draw, ans)) IN
                     /\ S' = h.S
                     /\ phase' = IF h.err # "" THEN "crashed" ELSE IF e.ty = E_END THEN "ended" ELSE "run"
                     /\ ninv' = IF e.ty = E_SCHED_START /\ ans # <<>> THEN ninv + 1 ELSE ninv

Stutter == phase # "run" /\ UNCHANGED mcvars
Next == Loop \/ Stutter
Spec == Init /\ [][Next]_mcvars /\ WF_mcvars(Loop)

----------------------------------------------------------------------------
MC_C01 == C01_NoOversub(MCW, S) /\ C01_LedgerAgrees(MCW, S) /\ C01_Backed(MCW, S) /\ C01_SingleWorker(S) /\ C01_AvRange(MCW, S)
MC_C02 == C02_StartedProperly(S)
MC_C03 == C03_HoldUntilDue(S) /\ C03_CompletedTiming(S) /\ C03_ExactCompletion(MCW, S) /\ C03_NotBeforePlan(S)
MC_C04 == C04_IdleMeansFull(MCW, S)
MC_C06 == C06_StarvedNeverRuns(S) /\ C06_CancelClosure(S)
MC_C07 == C07_OneBranch(S) /\ C07_ResolvedAtSubmission(MCW, S)
MC_C18 ==
    \A la \in 0..2, rtg \in BOOLEAN, ret \in BOOLEAN :
        LET res == Schedulable(S, S.now, la, ret, rtg) IN
        /\ C18_NoStarvation(S, S.now, res) /\ C18_NoDead(S, res) /\ C18_NoDuplicates(res)
        /\ C18_ScheduledOnlyIfRetract(S, res, ret, FALSE) /\ C18_RunningOnlyIfPreempt(S, res, FALSE)
        /\ C18_Monotone(S, S.now, la, ret)
MC_C19 == C19_ClosedLoop(S) /\ (phase = "ended" => C19_ClosedLoopTotal(MCW, S))
MC_C08 == C08_CancelCounter(S) /\ (phase = "ended" => C08_Counters(S))
MC_C05_End == phase = "ended" => C05_NoPrematureEnd(MCW, S)
MC_NoCrash == phase # "crashed"
MC_Clock == [][S'.now >= S.now]_mcvars
MC_Legal == [][\A t \in 1..NT(S) : LegalEdge(S.ts[t].st, S'.ts[t].st)]_mcvars
MC_Terminates == <>(phase # "run")
\* a running task completes exactly when due: start + runtime (C03)
MC_ExactRuntime == [][\A t \in 1..NT(S) :
                        (S.ts[t].st = RUNNING /\ S'.ts[t].st = COMPLETED) => S'.ts[t].fin = S.ts[t].last + S.ts[t].rem]_mcvars
MC_TimeBound == S.now <= MCW.fl.timeout + SchedRt
=============================================================================
