-------------------------------- MODULE Strl --------------------------------
(* Semantics of STRL expression DAGs (schedulers/tetrisched) over partitions   *)
(* with quantities and a unit time grid, and the checker that binds them to    *)
(* the C++ compiler: every record of a JSON batch carries a tree, the linear   *)
(* model the real `parse()` produced for it, one solution of that model and    *)
(* what the real `populateResults()` read back from it.                        *)
(*                                                                             *)
(* Part 1  semantics:  Valid(T, P), Utility(T, P), Best(T)                     *)
(* Part 2  ModelSat(M, x), ObjVal(M, x)                                        *)
(* Part 3  record / summary checkers and the batch state machine               *)
(*                                                                             *)
(* A tree T is [now, H, q, root, nodes]: q[p] is the quantity of partition p,  *)
(* time runs over 0..H-1 in unit steps (occupancy start <= t < end), nodes is  *)
(* a sequence of uniform records (children `ch` are indices: a node with two   *)
(* parents is a shared sub-expression).  A placement P maps every leaf         *)
(* (Choose / WindowedChoose / MalleableChoose) to                              *)
(*   [on, start, end, alloc]   alloc = set of <<partition, time, amount>>.     *)
(*                                                                             *)
(* Conventions the property statement leaves open and the pinned code fixes    *)
(* are named here (DESIGN 7):                                                  *)
(*  - ConvTrivialMinBonus: a Min none of whose children depends on the         *)
(*    placement (Allocations only) is worth that constant;                     *)
(*  - Min and LessThan couple their placement-dependent children               *)
(*    all-or-nothing (the lowering puts an equality on the indicators), so a   *)
(*    child shared with another parent is bound by it as well;                 *)
(*  - the utility of a shared sub-expression counts once per parent;           *)
(*  - an Allocation holds its resources unconditionally and has utility 0;     *)
(*  - a Choose / MalleableChoose that starts before `now` is never placed;     *)
(*  - a MalleableChoose occupies whole slots: it ends at the end of its last   *)
(*    occupied slot (this is what ordering and capacity are judged on).        *)
EXTENDS Integers, Sequences, FiniteSets, TLC, Json

CONSTANTS BatchFile,            \* path of the JSON batch (Part 3)
          ConvTrivialMinBonus   \* utility of a Min none of whose children depends on the placement

-----------------------------------------------------------------------------
(* generic helpers *)

RECURSIVE SumSet3(_)            \* sum of the third components of a set of triples
SumSet3(S) == IF S = {} THEN 0
              ELSE LET e == CHOOSE e \in S : TRUE IN e[3] + SumSet3(S \ {e})

RECURSIVE SumFun(_, _)          \* sum of f[x] for x in D
SumFun(f, D) == IF D = {} THEN 0
                ELSE LET x == CHOOSE x \in D : TRUE IN f[x] + SumFun(f, D \ {x})

RECURSIVE SetToSeq(_)
SetToSeq(S) == IF S = {} THEN <<>>
               ELSE LET x == CHOOSE x \in S : \A y \in S : x <= y
                    IN  <<x>> \o SetToSeq(S \ {x})

SeqToSet(s) == {s[j] : j \in 1..Len(s)}
MaxOf(S) == CHOOSE x \in S : \A y \in S : x >= y
MinOf(S) == CHOOSE x \in S : \A y \in S : x <= y

-----------------------------------------------------------------------------
(* Part 1: semantics *)

LeafKinds == {"Choose", "WindowedChoose", "MalleableChoose"}
NodeIdx(T) == 1..Len(T.nodes)
Leaves(T) == {i \in NodeIdx(T) : T.nodes[i].k \in LeafKinds}
Parts(T) == 1..Len(T.q)
Times(T) == 0..(T.H - 1)
Kids(T, i) == SeqToSet(T.nodes[i].ch)

Unplaced == [on |-> FALSE, start |-> 0, end |-> 0, alloc |-> {}]

\* start times a WindowedChoose may pick: multiples of its granularity inside
\* its [start, end] window (end = latest start).  The property statement does not
\* say that nothing is placed before `now`; the pinned ChooseExpression refuses
\* such options, the pinned WindowedChooseExpression offers them when its window
\* opens before `now` -- both are taken as they are (the harness counts the latter
\* as an observation, not as a C20 clause).
WStarts(T, n) == {s \in n.start..n.end : s % n.gran = 0}
\* slots of a MalleableChoose
MSlots(n) == {s \in n.start..(n.end - 1) : (s - n.start) % n.gran = 0}

\* --- exactness of one leaf (C20.choose_exact / C20.unsat_nothing) ---
AllocShapeOK(T, n, al, times) ==
    /\ al # {}
    /\ \A e \in al : /\ e[1] \in SeqToSet(n.ps) /\ e[1] \in Parts(T)
                     /\ e[2] \in times /\ e[3] >= 1
    /\ \A e, f \in al : (e[1] = f[1] /\ e[2] = f[2]) => e = f

\* which requirements a leaf's placement misses (empty = exact)
LeafBad(T, P, i) ==
    LET n == T.nodes[i]  pl == P[i]
        If(c, tag) == IF c THEN {tag} ELSE {}
        times == {e[2] : e \in pl.alloc}
    IN
    IF ~pl.on THEN If(pl.alloc # {}, "unplaced_alloc")
    ELSE CASE n.k = "Choose" ->
                If(n.start < T.now, "past")
                \cup If(pl.start # n.start, "start")
                \cup If(pl.end # n.start + n.dur, "end")
                \cup If(~AllocShapeOK(T, n, pl.alloc, {n.start}), "alloc")
                \cup If(SumSet3(pl.alloc) # n.num, "amount")
           [] n.k = "WindowedChoose" ->
                If(pl.start \notin WStarts(T, n), "start")
                \cup If(pl.end # pl.start + n.dur, "end")
                \cup If(~AllocShapeOK(T, n, pl.alloc, {pl.start}), "alloc")
                \cup If(SumSet3(pl.alloc) # n.num, "amount")
           [] n.k = "MalleableChoose" ->
                If(n.start < T.now, "past")
                \cup If(~AllocShapeOK(T, n, pl.alloc, MSlots(n)), "alloc")
                \cup If(SumSet3(pl.alloc) # n.slots, "amount")
                \cup If(times # {} /\ pl.start # MinOf(times), "start")
                \cup If(times # {} /\ pl.end # MaxOf(times) + n.gran, "end")
LeafOK(T, P, i) == LeafBad(T, P, i) = {}

\* the span a placed leaf really occupies (a MalleableChoose: first slot .. end of last slot)
LeafStart(T, P, i) ==
    IF T.nodes[i].k = "MalleableChoose" /\ P[i].alloc # {}
    THEN MinOf({e[2] : e \in P[i].alloc}) ELSE P[i].start
LeafEnd(T, P, i) ==
    IF T.nodes[i].k = "MalleableChoose" /\ P[i].alloc # {}
    THEN MaxOf({e[2] : e \in P[i].alloc}) + T.nodes[i].gran ELSE P[i].end

\* --- capacity (C20.capacity) ---
LeafUse(T, P, i, p, t) ==
    LET n == T.nodes[i]  pl == P[i] IN
    IF ~pl.on THEN 0
    ELSE IF n.k = "MalleableChoose"
         THEN SumSet3({e \in pl.alloc : e[1] = p /\ e[2] <= t /\ t < e[2] + n.gran})
         ELSE IF pl.start <= t /\ t < pl.end
              THEN SumSet3({e \in pl.alloc : e[1] = p}) ELSE 0

AllocNodes(T) == {i \in NodeIdx(T) : T.nodes[i].k = "Allocation"}
AllocUse(T, i, p, t) ==
    LET n == T.nodes[i] IN
    IF n.start <= t /\ t < n.start + n.dur
    THEN SumFun([j \in 1..Len(n.alloc) |-> IF n.alloc[j][1] = p THEN n.alloc[j][2] ELSE 0],
                1..Len(n.alloc))
    ELSE 0

Use(T, P, p, t) ==
    SumFun([i \in Leaves(T) |-> LeafUse(T, P, i, p, t)], Leaves(T))
    + SumFun([i \in AllocNodes(T) |-> AllocUse(T, i, p, t)], AllocNodes(T))

UseTable(T, P) == [c \in Parts(T) \X Times(T) |-> Use(T, P, c[1], c[2])]
CapViolIn(T, ut) == {c \in DOMAIN ut : ut[c] > T.q[c[1]]}
CapViol(T, P) == CapViolIn(T, UseTable(T, P))
CapOK(T, P) == \A p \in Parts(T), t \in Times(T) : Use(T, P, p, t) <= T.q[p]

\* --- structure ---
RECURSIVE Cond(_, _)   \* does the satisfaction of node i depend on the placement?
Cond(T, i) ==
    LET n == T.nodes[i] IN
    CASE n.k \in LeafKinds -> TRUE
      [] n.k = "Allocation" -> FALSE
      [] n.k = "Max" -> TRUE
      [] OTHER -> \E c \in Kids(T, i) : Cond(T, c)

\* span of an Allocation-only sub-expression (independent of the placement)
RECURSIVE FixStart(_, _)
FixStart(T, i) ==
    LET n == T.nodes[i] IN
    IF n.k = "Allocation" THEN n.start ELSE MinOf({FixStart(T, c) : c \in Kids(T, i)})
RECURSIVE FixEnd(_, _)
FixEnd(T, i) ==
    LET n == T.nodes[i] IN
    IF n.k = "Allocation" THEN n.start + n.dur ELSE MaxOf({FixEnd(T, c) : c \in Kids(T, i)})

RECURSIVE Sat(_, _, _)
Sat(T, P, i) ==
    LET n == T.nodes[i] IN
    CASE n.k \in LeafKinds -> P[i].on
      [] n.k = "Allocation" -> TRUE
      [] n.k = "Max" -> \E c \in Kids(T, i) : Sat(T, P, c)
      [] n.k = "Min" -> \A c \in Kids(T, i) : Sat(T, P, c)
      [] n.k = "LessThan" ->
            /\ Sat(T, P, n.ch[1]) /\ Sat(T, P, n.ch[2])
            \* two running tasks in the wrong order: never satisfied, whatever is placed
            /\ (~Cond(T, n.ch[1]) /\ ~Cond(T, n.ch[2])) => FixEnd(T, n.ch[1]) <= FixStart(T, n.ch[2])
      [] n.k = "Scale" -> Sat(T, P, n.ch[1])
      [] OTHER -> TRUE

\* span of a satisfied node: earliest start / latest end of what it places
RECURSIVE StartOf(_, _, _)
StartOf(T, P, i) ==
    LET n == T.nodes[i] IN
    CASE n.k \in LeafKinds -> LeafStart(T, P, i)
      [] n.k = "Allocation" -> n.start
      [] OTHER -> MinOf({StartOf(T, P, c) : c \in {c \in Kids(T, i) : Sat(T, P, c)}})
RECURSIVE EndOf(_, _, _)
EndOf(T, P, i) ==
    LET n == T.nodes[i] IN
    CASE n.k \in LeafKinds -> LeafEnd(T, P, i)
      [] n.k = "Allocation" -> n.start + n.dur
      [] OTHER -> MaxOf({EndOf(T, P, c) : c \in {c \in Kids(T, i) : Sat(T, P, c)}})

MaxOK(T, P, i) == Cardinality({c \in Kids(T, i) : Sat(T, P, c)}) <= 1
MinOK(T, P, i) ==
    LET cs == {c \in Kids(T, i) : Cond(T, c)} IN
    (\E c \in cs : Sat(T, P, c)) => (\A c \in cs : Sat(T, P, c))
LtOrderOK(T, P, i) ==
    LET a == T.nodes[i].ch[1]  b == T.nodes[i].ch[2] IN
    (Sat(T, P, a) /\ Sat(T, P, b) /\ (Cond(T, a) \/ Cond(T, b)))
        => EndOf(T, P, a) <= StartOf(T, P, b)
LtBothOK(T, P, i) ==
    LET a == T.nodes[i].ch[1]  b == T.nodes[i].ch[2] IN
    (Cond(T, a) /\ Cond(T, b)) => (Sat(T, P, a) <=> Sat(T, P, b))

OfKind(T, k) == {i \in NodeIdx(T) : T.nodes[i].k = k}

StructOK(T, P) ==
    /\ \A i \in OfKind(T, "Max") : MaxOK(T, P, i)
    /\ \A i \in OfKind(T, "Min") : MinOK(T, P, i)
    /\ \A i \in OfKind(T, "LessThan") : LtOrderOK(T, P, i) /\ LtBothOK(T, P, i)

Valid(T, P) ==
    /\ \A i \in Leaves(T) : LeafOK(T, P, i)
    /\ CapOK(T, P)
    /\ StructOK(T, P)

\* --- utility ---
RECURSIVE Utility(_, _, _)
Utility(T, P, i) ==
    LET n == T.nodes[i]
        kids == [j \in 1..Len(n.ch) |-> Utility(T, P, n.ch[j])]   \* a shared child counts per parent
        sum == SumFun(kids, 1..Len(n.ch))
    IN
    CASE n.k \in LeafKinds -> IF P[i].on THEN n.util ELSE 0
      [] n.k = "Allocation" -> 0
      [] n.k = "Max" -> sum
      [] n.k = "Min" -> IF Sat(T, P, i)
                        THEN sum + (IF Cond(T, i) THEN 0 ELSE ConvTrivialMinBonus)
                        ELSE 0
      [] n.k = "LessThan" -> IF Sat(T, P, i) THEN sum ELSE 0
      [] n.k = "Scale" -> IF n.disr = 1
                          THEN (IF Sat(T, P, n.ch[1]) THEN n.factor ELSE 0)
                          ELSE n.factor * sum
      [] OTHER -> sum

TreeUtility(T, P) == Utility(T, P, T.root)

\* --- brute force optimum ---
\* all ways to take `num` units from the partitions ps at one time t
Splits(T, ps, num, t) ==
    LET PS == SeqToSet(ps) \cap Parts(T)
        F == {f \in [PS -> 0..num] : /\ \A p \in PS : f[p] <= T.q[p]
                                      /\ SumFun(f, PS) = num}
    IN  {{<<p, t, f[p]>> : p \in {p \in PS : f[p] > 0}} : f \in F}

Options(T, i) ==
    LET n == T.nodes[i] IN
    CASE n.k = "Choose" ->
            IF n.start < T.now THEN {}
            ELSE {[on |-> TRUE, start |-> n.start, end |-> n.start + n.dur, alloc |-> a] :
                        a \in Splits(T, n.ps, n.num, n.start)}
      [] n.k = "WindowedChoose" ->
            UNION {{[on |-> TRUE, start |-> s, end |-> s + n.dur, alloc |-> a] :
                        a \in Splits(T, n.ps, n.num, s)} : s \in WStarts(T, n)}
      [] n.k = "MalleableChoose" ->
            IF n.start < T.now THEN {}
            ELSE LET PS == SeqToSet(n.ps) \cap Parts(T)
                     cells == PS \X MSlots(n)
                     qmax == MaxOf({T.q[p] : p \in Parts(T)})
                     F == {f \in [cells -> 0..qmax] :
                              /\ \A c \in cells : f[c] <= T.q[c[1]]
                              /\ SumFun(f, cells) = n.slots}
                 IN  {LET al == {<<c[1], c[2], f[c]>> : c \in {c \in cells : f[c] > 0}}
                      IN  [on |-> TRUE, start |-> MinOf({e[2] : e \in al}),
                           end |-> MaxOf({e[2] : e \in al}) + n.gran, alloc |-> al] :
                        f \in {f \in F : n.slots > 0}}

\* depth first over the leaves with capacity pruning; -1 = no valid placement at all
RECURSIVE BestRec(_, _, _, _)
BestRec(T, ls, k, P) ==
    IF k > Len(ls)
    THEN IF StructOK(T, P) THEN TreeUtility(T, P) ELSE -1
    ELSE LET i == ls[k]
             ext == {o \in Options(T, i) : CapOK(T, [P EXCEPT ![i] = o])}
         IN  MaxOf({BestRec(T, ls, k + 1, P)} \cup
                   {BestRec(T, ls, k + 1, [P EXCEPT ![i] = o]) : o \in ext})

Best(T) ==
    LET P0 == [i \in Leaves(T) |-> Unplaced] IN
    IF ~CapOK(T, P0) THEN -1 ELSE BestRec(T, SetToSeq(Leaves(T)), 1, P0)

-----------------------------------------------------------------------------
(* Part 2: the dumped linear model.  M = [lb, ub, hub, cons, obj]; variable    *)
(* indices are 1-based, index 0 in a term is the constant 1; only constraints  *)
(* the library marks active are shipped (the back-ends skip inactive ones).    *)

TermVal(x, t) == t[1] * (IF t[2] = 0 THEN 1 ELSE x[t[2]])
LinVal(x, terms) == SumFun([j \in 1..Len(terms) |-> TermVal(x, terms[j])], 1..Len(terms))

BoundViol(M, x) == {v \in 1..Len(M.lb) : x[v] < M.lb[v] \/ (M.hub[v] = 1 /\ x[v] > M.ub[v])}
ConOK(x, c) == LET l == LinVal(x, c.t) IN
               CASE c.s = "LE" -> l <= c.rhs
                 [] c.s = "GE" -> l >= c.rhs
                 [] OTHER -> l = c.rhs
ConViol(M, x) == {j \in 1..Len(M.cons) : ~ConOK(x, M.cons[j])}
ModelSat(M, x) == Len(x) = Len(M.lb) /\ BoundViol(M, x) = {} /\ ConViol(M, x) = {}
ObjVal(M, x) == LinVal(x, M.obj)

-----------------------------------------------------------------------------
(* Part 3: batch checking.  Batch = [trees, models, recs, sums].               *)
(*  rec = [id, tree, model, x, robj, rutil, pl, nclaim, nutil, nown]           *)
(*    pl      root placements as read back: [leaf, start, end, alloc]          *)
(*    nclaim  per node: 1 = the library reports the node satisfied (utility    *)
(*            # 0), 0 = not; nutil: the node's reported utility; nown: 1 = the *)
(*            node's own solution carries a placement                          *)
(*  sum = [tree, runs]  run = [id, g, passes, feasible, max, fine]             *)
(* Failing clauses are printed as  @@ <id> <clause> <detail>  lines; the       *)
(* checker itself never fails, so one run reports every failing record.        *)

Batch == JsonDeserialize(BatchFile)
NRecs == Len(Batch.recs)
NSums == Len(Batch.sums)

Report(id, clause, detail) ==
    PrintT("@@ " \o id \o " " \o clause \o " " \o ToString(detail))

\* bad => report, always TRUE
Flag(bad, id, clause, detail) == IF bad THEN Report(id, clause, detail) ELSE TRUE

\* vacuity counters: how often each structural situation was exercised
Tally(T, P, ut) ==
    <<Cardinality({i \in Leaves(T) : P[i].on}),
      Cardinality({c \in DOMAIN ut : ut[c] > 0}),
      Cardinality({i \in OfKind(T, "Max") : Sat(T, P, i)}),
      Cardinality({i \in OfKind(T, "Min") : Sat(T, P, i) /\ Cond(T, i)}),
      Cardinality({i \in OfKind(T, "LessThan") : Sat(T, P, i) /\ Cond(T, i)}),
      Cardinality({i \in OfKind(T, "Scale") : Sat(T, P, i)}),
      Cardinality({c \in DOMAIN ut : ut[c] = T.q[c[1]]})>>
NTally == 7
AddTally(t) == \A k \in 1..NTally : TLCSet(k, TLCGet(k) + t[k])

ASSUME \A k \in 1..NTally : TLCSet(k, 0)


PlacementOf(T, r) ==
    [i \in Leaves(T) |->
        IF \E j \in 1..Len(r.pl) : r.pl[j].leaf = i
        THEN LET e == r.pl[CHOOSE j \in 1..Len(r.pl) : r.pl[j].leaf = i]
             IN  [on |-> TRUE, start |-> e.start, end |-> e.end, alloc |-> SeqToSet(e.alloc)]
        ELSE Unplaced]

\* deepest node on a path from the root whose reported utility differs from the
\* specified one while all of its children agree: names the culprit of a mismatch
RECURSIVE Culprit(_, _, _, _)
Culprit(T, P, r, i) ==
    LET bad == {c \in Kids(T, i) : r.nutil[c] # Utility(T, P, c)} IN
    IF bad = {} THEN i ELSE Culprit(T, P, r, MinOf(bad))

CheckRec(r) ==
    LET T == Batch.trees[r.tree]
        M == Batch.models[r.model]
        P == PlacementOf(T, r)
        strays == {j \in 1..Len(r.pl) : \/ r.pl[j].leaf \notin Leaves(T)
                                         \/ \E k \in 1..Len(r.pl) : k # j /\ r.pl[k].leaf = r.pl[j].leaf}
        U == TreeUtility(T, P)
        ut == UseTable(T, P)
    IN
    /\ Flag(~ModelSat(M, r.x), r.id, "C20.model_sat",
            [bounds |-> BoundViol(M, r.x),
             cons |-> {M.cons[j].name : j \in IF Len(r.x) = Len(M.lb) THEN ConViol(M, r.x) ELSE {}}])
    /\ \/ Len(r.x) # Len(M.lb)
       \/ Flag(ObjVal(M, r.x) # r.robj \/ r.robj # r.rutil, r.id, "C20.utility_eq",
               [kind |-> "objective", model |-> ObjVal(M, r.x), reported |-> r.robj, root |-> r.rutil])
    /\ Flag(strays # {}, r.id, "C20.choose_exact", [kind |-> "placement that belongs to no leaf (or two to one)", n |-> strays])
    /\ \A i \in Leaves(T) :
          /\ Flag(P[i].on /\ ~LeafOK(T, P, i), r.id, "C20.choose_exact",
                  [node |-> i, bad |-> LeafBad(T, P, i), got |-> P[i]])
          /\ Flag(~P[i].on /\ ~LeafOK(T, P, i), r.id, "C20.unsat_nothing",
                  [node |-> i, bad |-> LeafBad(T, P, i), got |-> P[i]])
          /\ Flag(r.nclaim[i] = 0 /\ (r.nown[i] = 1 \/ P[i].on), r.id, "C20.unsat_nothing",
                  [node |-> i, kind |-> "unsatisfied leaf carries a placement"])
    /\ Flag(CapViolIn(T, ut) # {}, r.id, "C20.capacity",
            [over |-> {<<c[1], c[2], ut[c]>> : c \in CapViolIn(T, ut)},
             users |-> {i \in Leaves(T) \cup AllocNodes(T) : \E c \in CapViolIn(T, ut) :
                           IF i \in Leaves(T) THEN LeafUse(T, P, i, c[1], c[2]) > 0
                           ELSE AllocUse(T, i, c[1], c[2]) > 0}])
    /\ AddTally(Tally(T, P, ut))
    /\ \A i \in OfKind(T, "Max") :
          /\ Flag(~MaxOK(T, P, i), r.id, "C20.max_one", [node |-> i, kind |-> "placed"])
          /\ Flag(Cardinality({c \in Kids(T, i) : r.nclaim[c] = 1}) > 1, r.id, "C20.max_one",
                  [node |-> i, kind |-> "reported"])
    /\ \A i \in OfKind(T, "Min") :
          /\ Flag(~MinOK(T, P, i), r.id, "C20.min_all", [node |-> i, kind |-> "partial"])
          /\ Flag(r.nclaim[i] = 1 /\ \E c \in Kids(T, i) : Cond(T, c) /\ r.nclaim[c] = 0,
                  r.id, "C20.min_all", [node |-> i, kind |-> "reported satisfied with an unsatisfied child"])
    /\ \A i \in OfKind(T, "LessThan") :
          /\ Flag(~LtOrderOK(T, P, i), r.id, "C20.lessthan", [node |-> i, kind |-> "order"])
          /\ Flag(~LtBothOK(T, P, i), r.id, "C20.lessthan", [node |-> i, kind |-> "one side only"])
    /\ Flag(U # r.robj, r.id, "C20.utility_eq",
            [kind |-> "semantic", spec |-> U, reported |-> r.robj, node |-> Culprit(T, P, r, T.root)])

CheckRun(T, best, s, run) ==
    IF run.g = 1
    THEN LET clause == IF run.passes = 0 THEN "C20.best_eq" ELSE "C20.pass_invariant" IN
         Flag((run.feasible = 0 /\ best # -1) \/ (run.feasible = 1 /\ run.max # best),
              run.id, clause, [best |-> best, max |-> run.max, feasible |-> run.feasible, passes |-> run.passes])
    ELSE Flag(run.feasible = 1 /\ run.fine >= -1 /\ run.max > run.fine, run.id, "C20.coarse_le",
              [best |-> run.fine, max |-> run.max, feasible |-> run.feasible, g |-> run.g, passes |-> run.passes])

CheckSum(s) ==
    LET T == Batch.trees[s.tree]
        best == Best(T)
    IN  /\ PrintT("@@BEST " \o s.id \o " " \o ToString(best))
        /\ \A j \in 1..Len(s.runs) : CheckRun(T, best, s, s.runs[j])

VARIABLE idx
Init == idx = 0
Next ==
    /\ idx < NRecs + NSums
    /\ idx' = idx + 1
    /\ IF idx' <= NRecs
       THEN CheckRec(Batch.recs[idx'])
       ELSE CheckSum(Batch.sums[idx' - NRecs])
    /\ (idx' = NRecs + NSums) =>
          PrintT("@@TALLY " \o ToString([k \in 1..NTally |-> TLCGet(k)]))
Spec == Init /\ [][Next]_idx
=============================================================================
