------------------------------ MODULE PlanSpace ------------------------------
(* C14 - the decision space of the optimisation-based planners                 *)
(* (schedulers/ilp_scheduler.py, tetrisched_gurobi_scheduler.py,               *)
(* tetrisched_cplex_scheduler.py) as a state machine whose states are the      *)
(* feasible partial plans of ONE instance.                                     *)
(*                                                                            *)
(* record  [id, kind, mode, now, caps, occ, tasks, conv, ans, dump]            *)
(*   caps  : per worker and resource name the sequence of the quantities of    *)
(*           the worker's INSTANCES of that name (a worker may list one name   *)
(*           under several ids: <<1, 1>> = ids "0" and "1" with one unit each; *)
(*           <<>> = the worker does not have it).  Position i is id i-1; an    *)
(*           entry listed without an id sits at a position behind the ids (no  *)
(*           demand can pin it).  The capacity of a name is the SUM over its   *)
(*           instances (Cap).                                                  *)
(*   occ   : RUNNING occupants [w, dem, pin, hold, prec]: the occupant holds   *)
(*           dem (pin: as for strategies) on worker w from `now` for `hold`    *)
(*           time units and a child of it may start `prec` (+ precGap) after   *)
(*           `now`                                                             *)
(*   tasks : the tasks the planner decides, parents before children,           *)
(*           [graph, release, deadline, strats <<[dem, pin, rt]>>, parents,    *)
(*            occParents, must, sink]; must = previously SCHEDULED and not     *)
(*           retractable (has to be placed), sink = sink of its real TaskGraph *)
(*           dem[k] = units of resource name k the strategy asks for in total  *)
(*           (any id + specific ids), pin[k][i] = the part of dem[k] that has  *)
(*           to come from instance i of the worker (<<>> = nothing pinned)     *)
(*   mode  : "tasks" (default: released tasks are offered one by one) or       *)
(*           "graphs" (release_taskgraphs: whole task graphs are offered)      *)
(*   conv  : the policy's conventions (DESIGN 7), named so that a mutant that  *)
(*           changes one is detected while the pinned tree is not accused:     *)
(*     startLB  smallest allowed start (ILP now+1, TetriSched now)             *)
(*     grid     allowed starts are now + k*grid (ILP 1, TetriSched             *)
(*              time_discretization)                                           *)
(*     horizon  largest allowed start (TetriSched now + plan_ahead)            *)
(*     gap      a task started at s with runtime r holds its resources at the  *)
(*              instants s .. s+r-1+gap (ILP: closed intervals, gap 1: two     *)
(*              tasks conflict unless s1 >= s2+r2+1; TetriSched: s<=t<s+r)     *)
(*     precRt   "chosen" (ILP: child >= parent + runtime of the chosen         *)
(*              strategy + precGap) / "slowest" (TetriSched-Gurobi)            *)
(*     precGap  1 for both                                                     *)
(*     nameCap  FALSE in the statement-level decision space (a pinned unit has  *)
(*              to fit its instance); TRUE = the planners' models, which only  *)
(*              have one capacity row per (worker, resource name)              *)
(*     pairSum, unplacedTimed : FALSE in the statement-level decision space;   *)
(*              TRUE reproduces two over-tight constraints of the pinned ILP   *)
(*              (see PairCapOK, UnplacedTimedOK); used only to attribute a     *)
(*              violation to its cause, never to excuse it                     *)
(*   ans   : the planner's answer, per task [placed, w, s, start]              *)
(*   kind  : "opt"  search from the empty plan; C14_NoBetterPlan compares the  *)
(*                  goodput of every complete feasible plan with the answer's  *)
(*           "max"  the state is the answer; C14_Maximal: nothing can be added *)
(*           "ext"  search over the extensions of the answer; NoBetterPlan on  *)
(*                  the number of placed reward tasks                          *)
(*           "enum" enumerate every feasible plan (no pruning, no verdict;     *)
(*                  dump = TRUE prints the complete plans)                     *)
(*                                                                            *)
(* Place(w, s, st) / Skip decide the tasks in index order; Place is enabled    *)
(* only if PlanOK still holds.  Reachable states = feasible (partial) plans.   *)
EXTENDS Integers, Sequences, FiniteSets, TLC

CONSTANTS Records,      \* sequence of records
          NRecords      \* Len(Records)

VARIABLES rid,          \* index of the record this behaviour is about
          nxt,          \* next task to decide (NT+1: the plan is complete)
          plan          \* per task [placed, w, s, start]
vars == <<rid, nxt, plan>>

\* a constant substituted by the configuration is re-evaluated at every reference
TheRecords == Records
Tup(f) == f \o <<>>

RECURSIVE SumSet(_, _)
SumSet(f, S) == IF S = {} THEN 0 ELSE LET x == CHOOSE y \in S : TRUE IN f[x] + SumSet(f, S \ {x})
SetMax(S) == CHOOSE m \in S : \A x \in S : x <= m
Range(s) == {s[k] : k \in 1..Len(s)}
SumSeq(s) == SumSet(s, 1..Len(s))
At0(s, i) == IF i \in 1..Len(s) THEN s[i] ELSE 0

-----------------------------------------------------------------------------
(* the instance *)
NT(r)       == Len(r.tasks)
TIx(r)      == 1..NT(r)
OIx(r)      == 1..Len(r.occ)
Workers(r)  == 1..Len(r.caps)
NRes(r)     == Len(r.caps[1])
\* a worker that lists one resource name under several ids owns the SUM
Insts(r, w, k) == 1..Len(r.caps[w][k])
Cap(r, w, k)   == SumSeq(r.caps[w][k])
Unplaced    == [placed |-> FALSE, w |-> 0, s |-> 0, start |-> 0]
Put(P, t, w, s, st) == [P EXCEPT ![t] = [placed |-> TRUE, w |-> w, s |-> s, start |-> st]]
Placed(r, P) == {t \in TIx(r) : P[t].placed}

Strat(r, P, t)  == r.tasks[t].strats[P[t].s]
Rt(r, P, t)     == Strat(r, P, t).rt
Dem(r, P, t)    == Strat(r, P, t).dem
Pin(r, P, t)    == Strat(r, P, t).pin
SlowestRt(r, t) == SetMax({r.tasks[t].strats[s].rt : s \in 1..Len(r.tasks[t].strats)})
PrecRt(r, P, p) == IF r.conv.precRt = "slowest" THEN SlowestRt(r, p) ELSE Rt(r, P, p)

\* the allowed start slots of the policy
\* = {x \in startLB..horizon : (x - now) % grid = 0}, without walking over every
\* instant (mixed time units: a slot may be 1000 microseconds wide)
Slots(r) == {x \in {r.now + k * r.conv.grid : k \in 0..((r.conv.horizon - r.now) \div r.conv.grid)} :
                x >= r.conv.startLB}

IsSlot(r, x) == x >= r.conv.startLB /\ x >= r.now /\ x <= r.conv.horizon /\ (x - r.now) % r.conv.grid = 0

-----------------------------------------------------------------------------
(* PlanOK: capacity, release, precedence, deadline in the policy's space *)
\* the (cleared) worker can hold the strategy at all
CompatOK(r, P, t) ==
    /\ P[t].w \in Workers(r) /\ P[t].s \in 1..Len(r.tasks[t].strats)
    /\ \A k \in 1..NRes(r) : Dem(r, P, t)[k] <= Cap(r, P[t].w, k)
    /\ r.conv.nameCap \/ \A k \in 1..NRes(r) : \A i \in 1..Len(Pin(r, P, t)[k]) :
          Pin(r, P, t)[k][i] <= At0(r.caps[P[t].w][k], i)

TimingOK(r, P, t) ==
    /\ IsSlot(r, P[t].start)
    /\ P[t].start >= r.tasks[t].release
    /\ P[t].start + Rt(r, P, t) <= r.tasks[t].deadline          \* deadlines are hard

PrecOK(r, P, t) ==
    /\ \A p \in Range(r.tasks[t].parents) :
          P[p].placed /\ P[t].start >= P[p].start + PrecRt(r, P, p) + r.conv.precGap
    /\ \A o \in Range(r.tasks[t].occParents) :
          P[t].start >= r.now + r.occ[o].prec + r.conv.precGap

\* something started at `st` that runs for `dur` holds its resources at instant x
Active(r, st, dur, x) == st <= x /\ x < st + dur + r.conv.gap

Load(r, P, w, k, x) ==
    LET T == {t \in Placed(r, P) : P[t].w = w /\ Active(r, P[t].start, Rt(r, P, t), x)}
        O == {o \in OIx(r) : r.occ[o].w = w /\ Active(r, r.now, r.occ[o].hold, x)}
    IN  SumSet([t \in T |-> Dem(r, P, t)[k]], T) + SumSet([o \in O |-> r.occ[o].dem[k]], O)

\* capacity per worker and resource at every occupied instant: the load only
\* rises where something starts, so the start instants (and `now`) suffice
\* the pinned units on instance i of resource name k
PinLoad(r, P, w, k, i, x) ==
    LET T == {t \in Placed(r, P) : P[t].w = w /\ Active(r, P[t].start, Rt(r, P, t), x)}
        O == {o \in OIx(r) : r.occ[o].w = w /\ Active(r, r.now, r.occ[o].hold, x)}
    IN  SumSet([t \in T |-> At0(Pin(r, P, t)[k], i)], T) + SumSet([o \in O |-> At0(r.occ[o].pin[k], i)], O)

\* per name the load fits the SUM of the instances (units asked for with the `any`
\* id may come from any of them, split if need be); the units pinned to an
\* instance fit that instance
PointCapOK(r, P) ==
    \A t \in Placed(r, P) : \A k \in 1..NRes(r) :
        /\ Load(r, P, P[t].w, k, P[t].start) <= Cap(r, P[t].w, k)
        /\ r.conv.nameCap \/ \A i \in Insts(r, P[t].w, k) :
              PinLoad(r, P, P[t].w, k, i, P[t].start) <= r.caps[P[t].w][k][i]

NeedsSum(r, P) ==
    \E t \in Placed(r, P) : \E k \in 1..NRes(r) :
        /\ Insts(r, P[t].w, k) # {}
        /\ Load(r, P, P[t].w, k, P[t].start) > SetMax(Range(r.caps[P[t].w][k]))

\* --- the two over-tight constraints of the pinned ILP (attribution only) ---
\* ilp_scheduler.py _overlaps/_add_resource_constraints: Overlap(x, y) = the two
\* closed intervals intersect, and for EVERY task variable x (wherever it is
\* placed) and EVERY worker w the demand of x on w plus the demands of ALL tasks
\* on w that overlap x must fit - tasks that overlap x but not each other are
\* added up, and x constrains workers it is not placed on.
Ov(r, s1, r1, s2, r2) == ~(s1 >= s2 + r2 + r.conv.gap \/ s2 >= s1 + r1 + r.conv.gap)
PairLoad(r, P, w, k, st, dur, selfT, selfO) ==
    LET T == {t \in Placed(r, P) \ selfT : P[t].w = w /\ Ov(r, st, dur, P[t].start, Rt(r, P, t))}
        O == {o \in OIx(r) \ selfO : r.occ[o].w = w /\ Ov(r, st, dur, r.now, r.occ[o].hold)}
    IN  SumSet([t \in T |-> Dem(r, P, t)[k]], T) + SumSet([o \in O |-> r.occ[o].dem[k]], O)
PairCapOK(r, P) ==
    /\ \A t \in Placed(r, P) : \A w \in Workers(r) : \A k \in 1..NRes(r) :
          (IF P[t].w = w THEN Dem(r, P, t)[k] ELSE 0)
            + PairLoad(r, P, w, k, P[t].start, Rt(r, P, t), {t}, {}) <= Cap(r, w, k)
    /\ \A o \in OIx(r) : \A k \in 1..NRes(r) :
          r.occ[o].dem[k] + PairLoad(r, P, r.occ[o].w, k, r.now, r.occ[o].hold, {}, {o}) <= Cap(r, r.occ[o].w, k)

\* ilp_scheduler.py _initialize_timing_constraints: the start variable of a task
\* that is NOT placed still has to satisfy start >= max(now+1, release), start >=
\* parent.start (+ runtime + 1 if the parent is placed) and start <= deadline, so
\* one hopeless task makes the whole model infeasible.
RECURSIVE EST(_, _, _)
EST(r, P, t) ==
    LET tk == r.tasks[t]
    IN  SetMax({r.conv.startLB, tk.release}
               \cup {IF P[p].placed THEN P[p].start + Rt(r, P, p) + r.conv.precGap ELSE EST(r, P, p)
                       : p \in Range(tk.parents)}
               \cup {r.now + r.occ[o].prec + r.conv.precGap : o \in Range(tk.occParents)})
UnplacedTimedOK(r, P) == \A t \in TIx(r) \ Placed(r, P) : EST(r, P, t) <= r.tasks[t].deadline

PlanOK(r, P) ==
    /\ \A t \in Placed(r, P) : CompatOK(r, P, t) /\ TimingOK(r, P, t) /\ PrecOK(r, P, t)
    /\ IF r.conv.pairSum THEN PairCapOK(r, P) ELSE PointCapOK(r, P)
    /\ r.conv.unplacedTimed => UnplacedTimedOK(r, P)

-----------------------------------------------------------------------------
(* what the max_goodput objectives count *)
\* ILP _add_objective: one reward variable per offered task graph = AND over its
\* reward tasks of "placed"; reward tasks are the sinks of the graph
\* (release_taskgraphs) / the offered tasks none of whose children are offered.
\* The objective is the unweighted number of rewarded graphs.  TetriSched rewards
\* every placed task (release_taskgraphs: every placed sink) with a weight in
\* [1, 2] that prefers early slots.
Reward(r, t) ==
    IF r.mode = "graphs" THEN r.tasks[t].sink
    ELSE \A u \in TIx(r) : t \notin Range(r.tasks[u].parents)
Graphs(r) == {r.tasks[t].graph : t \in TIx(r)}
GraphDone(r, P, g) == \A t \in TIx(r) : (r.tasks[t].graph = g /\ Reward(r, t)) => P[t].placed
Goodput(r, P) == Cardinality({g \in Graphs(r) : GraphDone(r, P, g)})
RewardPlaced(r, P) == Cardinality({t \in Placed(r, P) : Reward(r, t)})

Metric(r, P) == IF r.kind = "ext" THEN RewardPlaced(r, P) ELSE Goodput(r, P)
Target(r)    == Metric(r, r.ans)           \* G_impl

-----------------------------------------------------------------------------
(* the state machine *)
Base(r) == IF r.kind \in {"max", "ext"} THEN r.ans ELSE Tup([t \in TIx(r) |-> Unplaced])
\* next task at or after i that the base plan leaves open
RECURSIVE NextFrom(_, _)
NextFrom(r, i) == IF i > NT(r) THEN NT(r) + 1
                  ELSE IF ~Base(r)[i].placed THEN i ELSE NextFrom(r, i + 1)
Decided(r, n, t) == t < n \/ Base(r)[t].placed

R == TheRecords[rid]

Init == \E i \in 1..NRecords :
          /\ rid = i
          /\ plan = Base(TheRecords[i])
          /\ nxt = IF TheRecords[i].kind = "max" THEN NT(TheRecords[i]) + 1 ELSE NextFrom(TheRecords[i], 1)

Place(w, s, st) ==
    /\ nxt <= NT(R)
    /\ LET P2 == Put(plan, nxt, w, s, st)
       IN  /\ PlanOK(R, P2)
           /\ plan' = P2
    /\ nxt' = NextFrom(R, nxt + 1)
    /\ UNCHANGED rid

Skip ==
    /\ nxt <= NT(R)
    /\ ~R.tasks[nxt].must
    /\ nxt' = NextFrom(R, nxt + 1)
    /\ UNCHANGED <<rid, plan>>

\* the slots at which the strategy can meet TimingOK at all (PlanOK decides; this only
\* spares evaluating it at the thousands of slots a microsecond grid has in a window
\* of milliseconds)
Window(r, t, s) ==
    LET lo == SetMax({r.conv.startLB, r.now, r.tasks[t].release})
        hi == r.tasks[t].deadline - r.tasks[t].strats[s].rt
    IN  {x \in lo..(IF hi <= r.conv.horizon THEN hi ELSE r.conv.horizon) : (x - r.now) % r.conv.grid = 0}
PlaceNext == \E w \in Workers(R), s \in 1..Len(R.tasks[nxt].strats) : \E st \in Window(R, nxt, s) : Place(w, s, st)
Next == (nxt <= NT(R)) /\ (PlaceNext \/ Skip)
Spec == Init /\ [][Next]_vars

Complete == nxt = NT(R) + 1

-----------------------------------------------------------------------------
(* the property *)
\* ILP: no complete feasible plan has more goodput than the answer.  A TLC
\* counterexample IS a better plan.
C14_NoBetterPlan ==
    (R.kind \in {"opt", "ext"} /\ Complete) => Metric(R, plan) <= Target(R)

\* TetriSched: nothing can be added to the answer (a plan has to keep every
\* previously SCHEDULED, non-retractable task placed)
MustOK(r, P) == \A t \in TIx(r) : r.tasks[t].must => P[t].placed
MaxStrats(r) == SetMax({Len(r.tasks[t].strats) : t \in TIx(r)})
Addable(r, P) ==
    {a \in [t : TIx(r), w : Workers(r), s : 1..MaxStrats(r), start : Slots(r)] :
        /\ ~P[a.t].placed /\ a.s <= Len(r.tasks[a.t].strats)
        /\ MustOK(r, Put(P, a.t, a.w, a.s, a.start))
        /\ PlanOK(r, Put(P, a.t, a.w, a.s, a.start))}
C14_Maximal == R.kind = "max" => Addable(R, plan) = {}

\* branch and bound: a task that was decided "not placed" (or has such an
\* ancestor) can never be placed in a successor
RECURSIVE Blocked(_, _, _, _)
Blocked(r, P, n, t) ==
    \/ (Decided(r, n, t) /\ ~P[t].placed)
    \/ \E p \in Range(r.tasks[t].parents) : Blocked(r, P, n, p)
Bound(r, P, n) ==
    IF r.kind = "ext"
    THEN Cardinality({t \in TIx(r) : Reward(r, t) /\ ~Blocked(r, P, n, t)})
    ELSE Cardinality({g \in Graphs(r) :
            \A t \in TIx(r) : (r.tasks[t].graph = g /\ Reward(r, t)) => ~Blocked(r, P, n, t)})

-----------------------------------------------------------------------------
(* batch runs: many records per TLC run, every failing record is reported with  *)
(* its clause and witness on a "@@" line; register 1 = records already reported *)
(* (their remaining plans are pruned), registers 2 / 3 = complete plans / states *)
(* examined per record                                                         *)
Found(i) == i \in TLCGet(1)
Report(i, clause, witness) ==
    /\ PrintT("@@ " \o ToString(R.id) \o " " \o clause \o " " \o ToString(witness))
    /\ TLCSet(1, TLCGet(1) \cup {i})

CanImprove == R.kind = "enum" \/ (~Found(rid) /\ Bound(R, plan, nxt) > Target(R))

IsInitial == plan = Base(R) /\ nxt = (IF R.kind = "max" THEN NT(R) + 1 ELSE NextFrom(R, 1))

BatchChecked ==
    /\ TLCSet(3, [TLCGet(3) EXCEPT ![rid] = @ + 1])
    /\ Complete => TLCSet(2, [TLCGet(2) EXCEPT ![rid] = @ + 1])
    /\ (R.kind = "enum" /\ R.dump /\ Complete /\ PlanOK(R, plan)) => PrintT("@@ " \o ToString(R.id) \o " plan " \o ToString(plan))
    /\ (~C14_NoBetterPlan /\ ~Found(rid)) => Report(rid, "better", plan)
    /\ ~C14_Maximal => Report(rid, "addable", CHOOSE a \in Addable(R, plan) : TRUE)
    \* coverage, not part of the property: the answer loads a worker beyond every single
    \* entry of a resource name (only the SUM over the instances admits it)
    /\ (IsInitial /\ NeedsSum(R, R.ans)) => PrintT("@@ " \o ToString(R.id) \o " needs_sum 0")
    \* not part of the property: is the answer itself inside the modelled space?
    /\ (IsInitial /\ Placed(R, R.ans) # {} /\ ~PlanOK(R, R.ans)) => PrintT("@@ " \o ToString(R.id) \o " answer_outside_space 0")

RegInit == TLCSet(1, {}) /\ TLCSet(2, [i \in 1..NRecords |-> 0]) /\ TLCSet(3, [i \in 1..NRecords |-> 0])
StatsLine == PrintT("@@stats " \o ToString(TLCGet(2))) /\ PrintT("@@states " \o ToString(TLCGet(3)))
=============================================================================
