"""Spec -> code replay: walk a TLC state graph (from `-dump dot,actionlabels`) and
execute every action on the real objects, comparing the projected abstract state
after every step.

An adapter provides
    fresh()                      build new real objects in the spec's initial state
    apply(name, args) -> bool    perform the call; True = accepted, False = refused
                                 (raised the documented exception / returned False)
    project() -> dict            real objects -> abstract state (through public getters)
    abstract(state) -> dict      TLC state -> abstract state of the same shape

An edge whose action name ends in `Refused` must be refused by the code and leave
the projection unchanged; any other edge must be accepted and lead to the
projection of the destination state.
"""
from __future__ import annotations

import collections
import random
import time

from . import tlaval


class Divergence:
    def __init__(self, kind, label, fields, path, expected=None, got=None, error=None):
        self.kind = kind  # outcome | state | exception | init
        self.label = label
        self.fields = fields
        self.path = path
        self.expected = expected
        self.got = got
        self.error = error

    def key(self):
        name = self.label.split("(")[0] if self.label else "Init"
        return f"{name}|{self.kind}|{','.join(sorted(self.fields))}"

    def describe(self):
        return (
            f"{self.kind} divergence at {self.label}: fields {sorted(self.fields)}"
            + (f" error={self.error}" if self.error else "")
        )

    def detail(self):
        return {
            "path": self.path,
            "label": self.label,
            "kind": self.kind,
            "fields": sorted(self.fields),
            "expected": self.expected,
            "got": self.got,
            "error": self.error,
        }


def diff_fields(a, b, prefix=""):
    """Names of (top-level.second-level) fields in which two projections differ."""
    out = set()
    if isinstance(a, dict) and isinstance(b, dict):
        for k in set(a) | set(b):
            if k not in a or k not in b:
                out.add(f"{prefix}{k}")
            elif a[k] != b[k]:
                if isinstance(a[k], dict) and isinstance(b[k], dict) and prefix.count(".") < 1:
                    out |= diff_fields(a[k], b[k], f"{prefix}{k}.")
                else:
                    out.add(f"{prefix}{k}")
    elif a != b:
        out.add(prefix.rstrip(".") or "value")
    return out


class Replayer:
    def __init__(self, graph, adapter, field_namer=None):
        self.g = graph
        self.ad = adapter
        self.abs_cache = {}
        self.divergences = []
        self.div_keys = collections.Counter()
        self.steps = 0
        self.paths = 0
        self.covered = set()  # (src, label)
        self.bad_edges = set()
        self.field_namer = field_namer or (lambda f: f)

    def abstract(self, nid):
        a = self.abs_cache.get(nid)
        if a is None:
            a = self.ad.abstract(self.g.states[nid])
            self.abs_cache[nid] = a
        return a

    def _record(self, d):
        self.div_keys[d.key()] += 1
        if self.div_keys[d.key()] <= 3:
            self.divergences.append(d)

    def start(self):
        self.ad.fresh()
        init = self.g.init[0]
        got = self.ad.project()
        exp = self.abstract(init)
        if got != exp:
            f = {self.field_namer(x) for x in diff_fields(exp, got)}
            self._record(Divergence("init", "", f, [], exp, got))
        return init

    def step(self, src, label, dst, path):
        """Execute one edge.  Returns True if the code followed the spec."""
        name, args = tlaval.split_call(label)
        self.steps += 1
        self.covered.add((src, label))
        refused_expected = name.endswith("Refused")
        try:
            accepted = self.ad.apply(name[: -len("Refused")] if refused_expected else name, args)
        except Exception as ex:  # an exception type the adapter does not regard as a refusal
            self._record(Divergence("exception", label, {type(ex).__name__}, path + [label], error=repr(ex)))
            self.bad_edges.add((src, label))
            return False
        if accepted == refused_expected:
            self._record(
                Divergence(
                    "outcome",
                    label,
                    {"accepted_but_spec_refuses" if accepted else "refused_but_spec_accepts"},
                    path + [label],
                )
            )
            self.bad_edges.add((src, label))
            return False
        got = self.ad.project()
        exp = self.abstract(dst)
        if got != exp:
            f = {self.field_namer(x) for x in diff_fields(exp, got)}
            self._record(Divergence("state", label, f, path + [label], exp, got))
            self.bad_edges.add((src, label))
            return False
        return True

    # -- strategies -----------------------------------------------------

    def all_paths(self, depth, budget_s=None):
        """Every path of length <= depth from the initial state (maximal paths only)."""
        t0 = time.time()
        init = self.g.init[0]

        def rec(prefix_edges, node, d):
            if budget_s and time.time() - t0 > budget_s:
                return
            outs = self.g.edges[node]
            if d == depth or not outs:
                self.run_path(prefix_edges)
                return
            for label, dst in outs:
                rec(prefix_edges + [(node, label, dst)], dst, d + 1)

        rec([], init, 0)

    def run_path(self, edges):
        self.paths += 1
        self.start()
        path = []
        for src, label, dst in edges:
            if (src, label) in self.bad_edges and False:
                return
            ok = self.step(src, label, dst, path)
            path.append(label)
            if not ok:
                return

    def greedy_cover(self, max_steps, rnd: random.Random, budget_s=None, restart_every=400):
        """Walk the graph preferring untaken edges (routing to the nearest state that has
        one), restarting from fresh objects after a divergence and every `restart_every`
        steps.  Returns the fraction of edges covered."""
        t0 = time.time()
        total_edges = sum(len(v) for v in self.g.edges.values())
        node = self.start()
        path = []
        self.paths += 1
        since = 0
        untaken = {n: [e for e in outs] for n, outs in self.g.edges.items()}
        for n in untaken:
            rnd.shuffle(untaken[n])
        while self.steps < max_steps:
            if budget_s and time.time() - t0 > budget_s:
                break
            cand = untaken[node]
            while cand and ((node, cand[-1][0]) in self.covered):
                cand.pop()
            if cand:
                label, dst = cand.pop()
                route = [(node, label, dst)]
            else:
                route = self._route(node, untaken)
                if route is None:
                    break
            ok = True
            for src, label, dst in route:
                ok = self.step(src, label, dst, path)
                path.append(label)
                since += 1
                if not ok:
                    break
                node = dst
            if not ok or since >= restart_every:
                node = self.start()
                path = []
                self.paths += 1
                since = 0
        return len(self.covered) / max(1, total_edges)

    def _route(self, node, untaken):
        """BFS to the nearest node with an untaken edge, avoiding diverged edges."""
        seen = {node}
        q = collections.deque([(node, [])])
        while q:
            n, r = q.popleft()
            if r and any((n, l) not in self.covered for l, _ in untaken[n]):
                return r
            for label, dst in self.g.edges[n]:
                if dst in seen or (n, label) in self.bad_edges or dst == n:
                    continue
                seen.add(dst)
                q.append((dst, r + [(n, label, dst)]))
        return None

    def run_behaviour(self, behaviour):
        """Replay one `-simulate file=` behaviour: [(action label, state dict)] with the initial state first."""
        self.paths += 1
        self.ad.fresh()
        got = self.ad.project()
        exp = self.ad.abstract(behaviour[0][1])
        path = []
        if got != exp:
            self._record(Divergence("init", "", {self.field_namer(x) for x in diff_fields(exp, got)}, [], exp, got))
            return
        for label, state in behaviour[1:]:
            name, args = tlaval.split_call(label)
            self.steps += 1
            refused_expected = name.endswith("Refused")
            try:
                accepted = self.ad.apply(name[: -len("Refused")] if refused_expected else name, args)
            except Exception as ex:  # noqa
                self._record(Divergence("exception", label, {type(ex).__name__}, path + [label], error=repr(ex)))
                return
            path.append(label)
            if accepted == refused_expected:
                self._record(Divergence("outcome", label,
                                        {"accepted_but_spec_refuses" if accepted else "refused_but_spec_accepts"}, list(path)))
                return
            got = self.ad.project()
            exp = self.ad.abstract(state)
            if got != exp:
                self._record(Divergence("state", label, {self.field_namer(x) for x in diff_fields(exp, got)}, list(path), exp, got))
                return

    def random_walks(self, n, depth, rnd: random.Random):
        for _ in range(n):
            node = self.start()
            self.paths += 1
            path = []
            for _ in range(depth):
                outs = self.g.edges[node]
                if not outs:
                    break
                label, dst = rnd.choice(outs)
                ok = self.step(node, label, dst, path)
                path.append(label)
                if not ok:
                    break
                node = dst
