"""C12 - deadline enforcement: no plan that misses a deadline, hopeless tasks dropped.

spec/PlanRules.tla is the oracle (Admit, HopelessCancelled, HopelessNotPlaced, DeadlineOK,
PlansViolatingOnly("deadline"), CompletedOK).

T1  instances with deadlines relative to now in {past, tight-1, tight, tight+1, tight+2, loose}
    (tight = now + runtime of the fastest strategy), 1-2 strategies (the fast one may fit only
    the bigger worker), 1-2 workers, a second independent task, a busy worker, chains whose
    child deadline is tight relative to the chain: real objects, real `schedule()` of EDF, FIFO,
    Clockwork, TetriSched-CPLEX (hopeless -> CANCEL), ILP task-by-task and TetriSched-Gurobi
    (hopeless -> left unplaced; placed => start + chosen runtime <= deadline, also for
    TetriSched-CPLEX and Clockwork); TLC judges every decision record.
T2  solution pools of the captured ILP / TetriSched-Gurobi models -> C12.model_solution.
R   TLC enumerates the plans that violate only the deadline rule (PlansViolatingOnly); each
    must be INFEASIBLE in the captured model (Gurobi copies; for TetriSched-CPLEX a clone of the
    docplex model taken at solve()) -> C12.model_admits_late_plan.
E   end to end: worlds simulated with ILP (task-by-task), TetriSched-Gurobi, TetriSched-CPLEX
    and Clockwork, enforce_deadlines, zero runtime variance (harness/simrun.run_world); the
    final task states of the trace go to TLC: every COMPLETED task finished by its deadline
    -> C12.completed_by_deadline.
"""
from __future__ import annotations

import json
import os
import time

from . import c11c12_common as cc
from .common import GUARD, CheckResult, parallel, rng, seed
from .c11c12_common import S1, S1L, S2, S2E, mk_inst, mk_task

NOW = 3
CANCEL = ("EDF", "FIFO", "TSC", "CW")
PLANNERS = ("ILP", "TSG")
POLICIES = CANCEL + PLANNERS
DELTAS = {"past": None, "tight-1": -1, "tight": 0, "tight+1": 1, "tight+2": 2, "loose": 9}

CFG = {
    "quick": dict(n_inst=44, chunks=8, pool_cap=80, pool_time=2, plan_cap=200, max_product=4000, tlc_timeout=300, worlds=8,
                  judge_batch=100000, agree_small=0),
    "thorough": dict(n_inst=100000, chunks=12, pool_cap=400, pool_time=4, plan_cap=4000, max_product=30000, tlc_timeout=3000, worlds=60,
                     judge_batch=4000, agree_small=600),
}

STRATS = {"one": S1L, "two": S2, "twoE": S2E}


def _opts(policy, **kw):
    o = {"rtg": False, "lookahead": 0, "retract": policy == "TSG", "plan_ahead": -1}
    o.update(kw)
    return o


def _deadline(strats, dk):
    f = min(s["rt"] for s in strats)
    return NOW - 1 if DELTAS[dk] is None else NOW + f + DELTAS[dk]


def admission_instance(policy, skind, dk, workers, second, grid=1):
    st = STRATS[skind]
    tasks = [mk_task([], st, state="REL", release=1, deadline=_deadline(st, dk))]
    if second:
        # an independent task of another graph with room to spare
        tasks.append(mk_task([], S1, state="REL", release=2, deadline=NOW + 12, graph="H"))
    name = f"{policy}/admit/{skind}/{dk}/w{'+'.join(map(str, workers))}{'/second' if second else ''}/g{grid}"
    inst = mk_inst(name, policy, tasks, workers, now=NOW, horizon=NOW + 9, grid=grid, enforce=True, **_opts(policy))
    if policy in ("TSG", "TSC") and dk == "loose":
        inst["opts"]["plan_ahead"] = inst["horizon"] - NOW
    return inst


def busy_instance(policy, dk, grid=1):
    """the only worker is held by a RUNNING task of another graph until now + 2"""
    run = mk_task([], [{"dem": 1, "rt": 4}], state="RUN", release=0, deadline=NOW + 20, graph="H", cur={"w": 1, "s": NOW - 2, "k": 1})
    st = S2E
    t = mk_task([], st, state="REL", release=1, deadline=_deadline(st, dk) + 2)
    name = f"{policy}/busy/{dk}/g{grid}"
    return mk_inst(name, policy, [run, t], [1], now=NOW, horizon=NOW + 10, grid=grid, enforce=True, **_opts(policy))


def chain_instance(policy, mode, dk, workers, skind):
    """a chain whose child deadline is tight relative to the chain"""
    pa = STRATS[skind]
    fa = min(s["rt"] for s in pa)
    child_dl = NOW - 1 if DELTAS[dk] is None else NOW + fa + 2 + DELTAS[dk]
    a = mk_task([], pa, state="REL", release=0, deadline=NOW + 12)
    b = mk_task([1], S1, state="REL" if mode == "rel" else "VIRT", release=0, deadline=child_dl)
    o = _opts(policy)
    if mode == "virt":
        if policy == "ILP":
            o["lookahead"] = 20
        else:
            o["rtg"] = True
    name = f"{policy}/chain/{mode}/{skind}/{dk}/w{'+'.join(map(str, workers))}"
    return mk_inst(name, policy, [a, b], workers, now=NOW, horizon=NOW + 9, enforce=True, **o)


def all_instances():
    out = []
    for policy in POLICIES:
        for skind in ("one", "two", "twoE"):
            for dk in DELTAS:
                for workers in ([2], [1, 2], [1]):
                    for second in (False, True):
                        grids = (1, 2) if policy in ("TSG", "TSC") and not second and skind == "one" else (1,)
                        for grid in grids:
                            out.append(admission_instance(policy, skind, dk, workers, second, grid))
        for dk in DELTAS:
            out.append(busy_instance(policy, dk))
    for policy in PLANNERS:
        for mode in ("rel", "virt"):
            for skind in ("one", "twoE", "two"):
                for dk in DELTAS:
                    for workers in ([2], [1, 2]):
                        out.append(chain_instance(policy, mode, dk, workers, skind))
    return out


def quick_selection(insts, n, rnd):
    """every policy x deadline kind at least once, every class per policy; the rest seeded"""
    by = {}
    for i in insts:
        parts = i["name"].split("/")
        dk = next(p for p in parts if p in DELTAS)
        by.setdefault((parts[0], dk), []).append(i)
    sel, names = [], set()
    for key in sorted(by):
        c = rnd.choice(by[key])
        sel.append(c)
        names.add(c["name"])
    for policy in POLICIES:
        for cls in ("busy", "chain"):
            cands = [i for i in insts if i["name"].startswith(f"{policy}/{cls}/") and i["name"] not in names]
            if cands:
                c = rnd.choice(cands)
                sel.append(c)
                names.add(c["name"])
    rest = [i for i in insts if i["name"] not in names]
    rnd.shuffle(rest)
    for i in rest:
        if len(sel) >= n:
            break
        sel.append(i)
    return sel[: max(n, len(by))]


# ---------------------------------------------------------------------------
# end to end


def e2e_worlds(n, rnd):
    R = lambda q: [{"name": "gpu", "id": "any", "q": q}]  # noqa: E731
    I = lambda i, c: {"name": "gpu", "id": i, "cap": c}  # noqa: E731
    zero_load = [{"dem": [], "rt": 0, "bs": 1}]
    out = []
    kinds = ["ilp", "ts_gurobi", "ts_cplex", "clockwork"]
    k = 0
    while len(out) < n:
        kind = kinds[k % len(kinds)]
        k += 1
        two = rnd.random() < 0.5
        profiles = [
            {"name": "P0", "strats": [{"dem": R(1), "rt": rnd.choice([2, 3]), "bs": 1}]
             + ([{"dem": R(2), "rt": 1, "bs": 1}] if two and kind != "clockwork" else []), "loading": zero_load},
            {"name": "P1", "strats": [{"dem": R(1), "rt": rnd.choice([1, 2, 4]), "bs": 1}], "loading": zero_load},
        ]
        shape = rnd.choice(["single", "chain2", "fork", "chain2"])
        jobs = {
            "single": [{"name": "A", "profile": 0}],
            "chain2": [{"name": "A", "profile": 0, "children": ["B"]}, {"name": "B", "profile": 1}],
            "fork": [{"name": "A", "profile": 1, "children": ["B", "C"]}, {"name": "B", "profile": 0}, {"name": "C", "profile": 1}],
        }[shape]
        graphs = [
            {"name": "G0", "jobs": jobs, "policy": {"type": "fixed", "period": rnd.choice([1, 2, 3]), "n": rnd.choice([3, 4]), "start": rnd.choice([0, 1])},
             "dv": rnd.choice([[0, 0], [20, 60], [50, 150], [0, 100]])},
        ]
        if rnd.random() < 0.5:
            graphs.append({"name": "G1", "jobs": [{"name": "X", "profile": 1}],
                           "policy": {"type": "fixed", "period": 2, "n": 3, "start": 0}, "dv": rnd.choice([[0, 50], [30, 90]])})
        pools = [[[I("g1", rnd.choice([1, 2]))]] + ([[I("g2", 1)]] if rnd.random() < 0.4 else [])]
        sched = {"kind": kind, "runtime": 0, "enforce": True, "lookahead": 0, "retract": kind == "ts_gurobi", "rtg": False,
                 "goal": "max_goodput", "disc": 1, "plan_ahead": 10, "batching": False}
        out.append({
            "name": f"e2e/{kind}/{len(out)}", "profiles": profiles, "graphs": graphs, "pools": pools, "sched": sched,
            "flags": {"timeout": 120, "variance": 0, "frequency": -1, "drop_skipped": rnd.random() < 0.3},
            "seed": rnd.randrange(10**6), "preload": kind == "clockwork",
        })
    return out


def _e2e_job(world):
    """simulate one world under the tracer (forked child); returns the final task states"""
    os.environ[GUARD] = "1"
    from . import simrun, worlds
    from .realobj import ns, us

    if world["sched"]["kind"] in ("ilp", "ts_gurobi"):
        cc.quiet_gurobi()
    if not getattr(worlds, "_c12_wrapped", False):
        orig = worlds.build

        def build(w):
            pools, sched, loader, flags, fl, sc = orig(w)
            if w.get("preload"):
                # Simulator never calls scheduler.start(): the models are loaded here (zero-cost loading strategy)
                N = ns()
                profs = {}
                for tg in loader._workload.task_graphs.values():
                    for t in tg.get_nodes():
                        profs[t.profile.id] = t.profile
                for pool in pools.worker_pools:
                    for w_ in pool.workers:
                        for p in profs.values():
                            w_.load_profile(p, N.ExecutionStrategy(resources=N.Resources(), batch_size=1, runtime=us(0)))
                        w_.step(us(0), us(1))
            return pools, sched, loader, flags, fl, sc

        orig_flags = worlds.mk_flags

        def mk_flags(w):
            f, fl, sc = orig_flags(w)
            f.scheduler_log_times = []  # an absl list flag: the solver-based schedulers iterate over it
            return f, fl, sc

        worlds.mk_flags = mk_flags
        worlds.build = build
        worlds._c12_wrapped = True
    import contextlib
    import io

    with contextlib.redirect_stdout(io.StringIO()):
        tr = simrun.run_world(world, wall_limit=90)
    last = {}
    for i, dyn in tr.get("init", {}).get("ts", []):
        last[i] = dyn
    nsched = 0
    for rec in tr.get("recs", []):
        for i, dyn in rec.get("post", {}).get("ts", []):
            last[i] = dyn
        if rec.get("sched"):
            nsched += 1
    return {
        "name": world["name"], "kind": world["sched"]["kind"], "end": tr.get("end"), "tasks": [last[i] for i in sorted(last)],
        "scheduler_calls": nsched, "wall_s": tr.get("wall_s"), "machinery_error": tr.get("machinery_error"),
    }


def e2e_record(o):
    """final task states -> a record of PlanRules (only state / fin / deadline matter)"""
    pol = {"ilp": "ILP", "ts_gurobi": "TSG", "ts_cplex": "TSC", "clockwork": "CW"}[o["kind"]]
    tasks = []
    for t in o["tasks"]:
        done = t["st"] == 7
        tasks.append(mk_task([], [{"dem": 1, "rt": 1}], state="DONE" if done else "REL", release=max(0, t["rel"]),
                             deadline=t["dl"], fin=t["fin"] if done else -1, cur={"w": 1, "s": max(0, t["start"]), "k": 1}))
    if not tasks:
        return None
    inst = mk_inst(o["name"], pol, tasks, [1], now=0, horizon=0, enforce=True)
    dec = [{"kind": "none", "w": 0, "s": 0, "k": 0} for _ in tasks]
    return {"src": "e2e", "inst": inst, "dec": dec, "info": {}}


# ---------------------------------------------------------------------------


def _job(kind, *a):
    if kind == "chunk":
        tag, insts, cfg = a
        return cc.run_chunk(tag, insts, "deadline", cfg)
    return _e2e_job(a[0])


def key_of(inst, what):
    """policy + circumstance (instance class, deadline relative to now) + clause"""
    parts = inst["name"].split("/")
    dk = next((p for p in parts if p in DELTAS), "")
    return f"{parts[0]}/{parts[1]}/{dk}|{what}"


def run(tier: str) -> CheckResult:
    res = CheckResult("C12", tier)
    cfg = dict(CFG[tier], seed=seed(), models=True)
    rnd = rng("c12")
    insts = all_instances()
    if len(insts) > cfg["n_inst"]:
        insts = quick_selection(insts, cfg["n_inst"], rnd)
    # TetriSched-CPLEX and Gurobi calls are the slow ones: spread the policies over the chunks
    insts.sort(key=lambda i: i["policy"])
    parts = [insts[k::cfg["chunks"]] for k in range(cfg["chunks"])]
    jobs = [("chunk", f"c12/{k}", p, cfg) for k, p in enumerate(parts) if p]
    worlds_ = e2e_worlds(cfg["worlds"], rng("c12-e2e"))
    jobs += [("e2e", w) for w in worlds_]
    t0 = time.time()
    outs_all = parallel(_job, jobs, procs=min(12, cfg["chunks"] + 4))
    t_jobs = time.time() - t0
    outs = [o for j, o in zip(jobs, outs_all) if j[0] == "chunk"]
    e2e = [o for j, o in zip(jobs, outs_all) if j[0] == "e2e"]
    recs = []
    for o in outs:
        for r in o["records"]:
            r["id"] = len(recs) + 1
            recs.append(r)
    e2e_stats = {"worlds": len(e2e), "tasks": 0, "completed": 0, "cancelled": 0, "by_policy": {}, "crashed": 0, "scheduler_calls": 0}
    notes = []
    for o in e2e:
        if o.get("machinery_error"):
            raise cc.tlc.TLCMachineryError(f"e2e world {o['name']}: {o['machinery_error']}")
        end = o.get("end") or {}
        if end.get("exc") or end.get("hang"):
            e2e_stats["crashed"] += 1
            notes.append(f"{o['name']}: simulate() ended with {end.get('exc') or end.get('hang')} (final states still checked)")
        r = e2e_record(o)
        if r is None:
            if end.get("exc"):
                raise cc.tlc.TLCMachineryError(f"e2e world {o['name']} could not be built / run: {end.get('exc')}\n{end.get('tb', '')}")
            continue
        r["id"] = len(recs) + 1
        recs.append(r)
        done = sum(1 for t in o["tasks"] if t["st"] == 7)
        e2e_stats["tasks"] += len(o["tasks"])
        e2e_stats["completed"] += done
        e2e_stats["cancelled"] += sum(1 for t in o["tasks"] if t["st"] == 8)
        e2e_stats["scheduler_calls"] += o["scheduler_calls"]
        bp = e2e_stats["by_policy"].setdefault(o["kind"], {"worlds": 0, "completed": 0, "tasks": 0})
        bp["worlds"] += 1
        bp["completed"] += done
        bp["tasks"] += len(o["tasks"])
    t0 = time.time()
    fails, stats, truns = cc.judge_parallel(recs, batch=cfg["judge_batch"], procs=cfg["chunks"])
    t_judge = time.time() - t0
    for tr in truns:
        res.states += tr["distinct"]
        res.transitions += tr["generated"]
    res.extra["tlc_record_runs"] = truns
    res.traces_validated = len(recs)
    byid = {r["id"]: r for r in recs}
    counters = {}
    for o in outs:
        for k, v in o["counters"].items():
            counters[k] = counters.get(k, 0) + v
        notes += o["notes"]
        if "tlc" in o:
            res.states += o["tlc"]["distinct"]
            res.transitions += o["tlc"]["generated"]
    wf = 0
    for rid, clauses in sorted(fails.items()):
        r = byid[rid]
        for c in clauses:
            if c == "harness.wf":
                wf += 1
                notes.append(f"record of {r['inst']['name']} ({r['src']}) is not well formed: {r['dec']}")
                continue
            if not c.startswith("C12."):
                continue
            if r["src"] == "pool":
                clause, what = "C12.model_solution", f"a feasible solution of the {r['inst']['policy']} model violates {c}"
            elif r["src"] == "e2e":
                clause, what = c, f"a task completed after its deadline in a run with {r['inst']['policy']}, enforce_deadlines, exact runtimes"
            else:
                clause, what = c, f"the answer of {r['inst']['policy']} violates {c}"
            detail = {"source": r["src"], "failed_clause": c, "raw": {"inst": r["inst"], "dec": r["dec"]}}
            if r["src"] == "e2e":
                detail["late"] = [
                    {"task": i + 1, "finished": t["fin"], "deadline": t["deadline"], "started": t["cur"]["s"]}
                    for i, t in enumerate(r["inst"]["tasks"]) if t["state"] == "DONE" and t["fin"] > t["deadline"]
                ]
                detail["world"] = next((w for w in worlds_ if w["name"] == r["inst"]["name"]), None)
            else:
                detail["instance"] = cc.compact_inst(r["inst"], r["dec"])
            res.violate(clause, f"{what} [{r['inst']['name']}]", detail,
                        key=key_of(r["inst"], c if r["src"] != "pool" else f"model_solution:{c}"))
    if wf:
        raise cc.tlc.TLCMachineryError(f"{wf} malformed records: {notes[-3:]}")
    r_checked = r_complete = 0
    for o in outs:
        for rr in o["r"]:
            r_checked += 1
            r_complete += 1 if rr["complete"] else 0
            if rr["n_admitted"]:
                a = rr["admitted"][0]
                res.violate(
                    "C12.model_admits_late_plan",
                    f"the {rr['inst']['policy']} model admits a plan that misses a deadline (and breaks no other rule) [{rr['name']}]",
                    {
                        "instance": cc.compact_inst(rr["inst"], cc.dec_of_compact(rr["inst"], a["plan"])),
                        "late_by": a["margin"], "admitted_plans": rr["n_admitted"], "of_checked": rr["checked"],
                        "examples": rr["admitted"], "raw": {"inst": rr["inst"]},
                    },
                    key=key_of(rr["inst"], "model_admits_late_plan"),
                )
    res.extra.update({
        "instances": len(insts),
        "instances_by_policy": {p: sum(1 for i in insts if i["policy"] == p) for p in POLICIES},
        "records_returned": sum(1 for r in recs if r["src"] == "returned"),
        "records_pool": sum(1 for r in recs if r["src"] == "pool"),
        "records_e2e": sum(1 for r in recs if r["src"] == "e2e"),
        "answers": {
            k: sum(1 for r in recs if r["src"] == "returned" for d in r["dec"] if d["kind"] == k)
            for k in ("place", "unplaced", "cancel", "none")
        },
        "counters": counters,
        "r_instances": r_checked, "r_instances_all_plans_checked": r_complete,
        "record_stats": dict(zip(cc.STAT_NAMES, stats)),
        "e2e": e2e_stats,
        "timing_s": {"jobs": round(t_jobs, 1), "judge": round(t_judge, 1), "chunks": [o["timing"] for o in outs]},
        "constants": {k: v for k, v in cfg.items()},
    })
    want = [("cancel", 2), ("place", 3), ("unplaced", 2)]
    for kind, k in want:
        got = 0
        for r in recs:
            if r["src"] == "returned" and got < k and any(d["kind"] == kind for d in r["dec"]):
                res.samples.append({"instance": cc.compact_inst(r["inst"], r["dec"]), "verdict": fails.get(r["id"], "ok")})
                got += 1
    for o in outs:
        for rr in o["r"]:
            if len(res.samples) < 8 and rr["enumerated"] > 0:
                res.samples.append({"R": rr["name"], "plans_violating_only_the_deadline": rr["enumerated"], "fixed_in_model": rr["checked"], "feasible": rr["n_admitted"]})
    res.notes += notes[:40]
    res.notes.append(
        "covered: admission / cancellation answers of EDF, FIFO, Clockwork (one fresh scheduler per call, models pre-loaded), "
        "TetriSched-CPLEX; plans of ILP (task-by-task mode only: with release_taskgraphs the code makes enforcement conditional), "
        "TetriSched-Gurobi, TetriSched-CPLEX, Clockwork; T2 (solution pool) + R on the captured Gurobi models (ILP, TetriSched-Gurobi); "
        "R only on a clone of the docplex model taken when TetriSched-CPLEX calls solve() (the scheduler ends its own model before "
        "returning; no pool enumeration with the CPLEX community edition); Z3 is not part of C12 (its deadline constraint is soft)"
    )
    res.assumptions += [
        "TLC; Gurobi's INFEASIBLE answers on models with all decision variables fixed; pools are samples (cap in constants)",
        "Admit(now, t) == ~(deadline < now + runtime of the fastest strategy), the comparison every policy codes; for the cancelling "
        "policies C12.hopeless_cancelled is read as an equivalence: exactly the non-admitted tasks are answered with CANCEL (a task that "
        "can still finish with its fastest strategy starting now, deadline == now + runtime included, is not dropped by the admission test)",
        "end to end: final task states (state, completion time, deadline) read by the tracer (harness/simrun.py) from the real tasks",
    ]
    return res


def replay(d) -> int:
    raw = d["detail"].get("raw", {})
    inst = raw.get("inst")
    if not inst or d["detail"].get("source") == "e2e":
        return 0
    inst2, dec, info, handle = cc.realize(inst)
    print(json.dumps(cc.compact_inst(inst2, dec), indent=1))
    fails, _, _ = cc.judge_records([{"id": 1, "src": "returned", "inst": inst2, "dec": dec}])
    print("failing clauses of the returned answer:", fails.get(1, []))
    return 1 if any(c.startswith("C12.") for c in fails.get(1, [])) else 0
