"""C15 — Clockwork batching: full, same-model, loaded, on-time batches only.

spec/Clockwork.tla is the oracle.  It states the property once, on call records
(`Cl*` operators), and contains a deterministic transcription of
ClockworkScheduler.schedule() over successive invocations.

M  TLC checks the state machine exhaustively on small worlds (all arrival
   histories / deadlines / invocation instants, both goals): invariants C15_*.
R  TLC behaviours (dumped state graph of a small world: all paths to depth D,
   edge cover, random walks; `-simulate` behaviours of a bigger world) are
   replayed on one real ClockworkScheduler kept alive over an evolving real
   Workload / WorkerPools; after every action the answer of schedule() and the
   live workers are compared with the spec's `out` / `obs`  (clause C15.batch_eq,
   stricter than the statement: reported as a note unless a property clause is
   broken in the same execution).
T  seeded random histories on worlds larger than the model-checking bound run
   on the real scheduler; every schedule() call is recorded (offered requests,
   worker state, returned placements) and the records -- also those of the
   replays in R -- are checked by TLC with `RecCheck` (the same `Cl*` operators).

Model loading (--scheduler_run_load).  The same three legs run on memory-tight
clusters where the policy itself emits LOAD / EVICT: the spec keeps per worker
the available and the pending models (remaining load time) and the model
memory, transcribes run_load except for its floating-point priority order,
which is a free parameter of Invoke (M: the invariants hold for every order);
"loaded" is judged after the evictions of the same answer (the simulator
handles the events of one instant in the order evict, load, place), a pending
model is not loaded; C15.load_target / C15.load_fits state run_load's part.
R: the dumped graph has one Invoke edge per answer some order yields; NDWalker
executes the move on the real scheduler (workers evolve by the real
evict_profile / load_profile / step) and continues in the successor that
equals the projection of the real objects (none = batch_eq divergence);
`-simulate` behaviours of bigger worlds are used as action scripts.  T: random
clusters with models of different size / load time / request rate / urgency.

Python only builds the real objects, applies placements the way the simulator
does (Task.cancel, WorkerPool.evict_profile, WorkerPool.load_profile,
Task.schedule / WorkerPool.place_task / Task.start, WorkerPool.step /
remove_task / Task.finish) and ships data to and from TLC.
"""
from __future__ import annotations

import collections
import json
import os
import re
import time

from . import mcgen, tlaval, tlc
from . import replay as rpl
from .common import CheckResult, Scratch, parallel, rng, seed as verif_seed
from .realobj import mk_profile, mk_strategy, ns, us

PID = "C15"
JOPTS = mcgen.LIB_OPT + ["-XX:ParallelGCThreads=2", "-XX:TieredStopAtLevel=1", "-Xss16m"]
INVARIANTS = {
    "C15_FullBatch": "C15.full_batch",
    "C15_SameModel": "C15.same_model",
    "C15_Loaded": "C15.loaded",
    "C15_Fits": "C15.fits",
    "C15_OnTime": "C15.on_time",
    "C15_PlacedOnce": "C15.placed_once",
    "C15_LateCancelled": "C15.late_cancelled",
    "C15_LoadTarget": "C15.load_target",
    "C15_LoadFits": "C15.load_fits",
    "QueuesSorted": "spec.sanity",
    "QueuedAreLive": "spec.sanity",
    "TypeOK": "spec.sanity",
}
PROPERTY_CLAUSES = sorted(set(INVARIANTS.values()) - {"spec.sanity"})
DUMMY_CONSTANTS = {
    "Strats": mcgen.Raw("<<>>"),
    "Reqs": [],
    "Workers": [],
    "Goal": "clockwork",
    "InitOrder": [],
    "MaxT": 0,
    "Steps": mcgen.Raw("{}"),
    "RunLoad": False,
    "LoadOf": mcgen.Raw("<<>>"),
}


def S(b, rt, dem=1):
    return {"b": b, "rt": rt, "dem": dem}


def Q(m, dls, arr=0):
    return {"m": m, "dls": set(dls), "arr": arr}


def Wk(cap, loaded, mem=0):
    return {"cap": cap, "mem": mem, "loaded": set(loaded)}


def L(mem, lt):
    return {"mem": mem, "lt": lt}


def full(cfg):
    """cfg with the loading constants filled in (run_load off: models take no memory and no time)"""
    c = dict(cfg)
    c.setdefault("RunLoad", False)
    c.setdefault("LoadOf", {m: L(0, 0) for m in sorted(c["Strats"])})
    c["Workers"] = [dict(w, mem=w.get("mem", 0)) for w in c["Workers"]]
    return c


def flags_ns(**kw):
    """a stand-in for the absl flags the policy reads at construction"""
    import types

    d = dict(log_dir=None, log_file_name=None, log_level="info", scheduler_log_times=[], scheduler_run_load=False,
             scheduler_log_to_file=False)  # fmt: skip
    d.update(kw)
    return types.SimpleNamespace(**d)


# ---------------------------------------------------------------------------
# the real world: one scheduler, one workload, one pool, driven action by action


def _norm(v):
    if isinstance(v, dict):
        return {str(k): _norm(x) for k, x in v.items()}
    if isinstance(v, (set, frozenset)):
        return sorted(_norm(x) for x in v)
    if isinstance(v, (list, tuple)):
        return [_norm(x) for x in v]
    return v


NO_OUT = {"at": -1, "offered": [], "cancelled": [], "batches": [], "free": [], "evicts": [], "loads": [], "loaded": [],
          "pending": [], "fmem": []}  # fmt: skip


class RealWorld:
    """cfg: Strats {m: [{b,rt,dem}]}, Reqs [{m,dls,arr}], Workers [{cap,mem,loaded}], Goal, InitOrder,
    RunLoad, LoadOf {m: {mem,lt}}."""

    def __init__(self, cfg):
        cfg = full(cfg)
        self.cfg = cfg
        self.models = sorted(cfg["Strats"])
        self.nreq = len(cfg["Reqs"])

    # -- construction -----------------------------------------------------
    def fresh(self):
        N = ns()
        from schedulers import ClockworkScheduler

        gpu = [{"name": "GPU", "id": "any", "q": 0}]
        self.gpu_any = N.Resource(name="GPU", _id="any")
        self.ram_any = N.Resource(name="RAM", _id="any")
        self.profile = {}
        load_of = self.cfg["LoadOf"]

        def ram(q):  # model memory is a resource type of its own
            return N.Resources(resource_vector={N.Resource(name="RAM", _id="any"): q}) if q else N.Resources()

        for m in self.models:
            strategies = [
                mk_strategy([dict(gpu[0], q=s["dem"])], runtime=s["rt"], batch_size=s["b"]) for s in self.cfg["Strats"][m]
            ]
            loading = [N.ExecutionStrategy(resources=ram(load_of[m]["mem"]), batch_size=1, runtime=us(load_of[m]["lt"]))]
            self.profile[m] = mk_profile(m, strategies, loading)
        self.model_of_profile = {p.id: m for m, p in self.profile.items()}
        self.task = {}
        graphs = {}
        for r, q in enumerate(self.cfg["Reqs"], 1):
            t = N.Task(
                name=f"r{r}",
                task_graph=f"g{r}",
                job=N.Job(name=f"j{r}", profile=self.profile[q["m"]]),
                profile=self.profile[q["m"]],
                deadline=us(max(q["dls"]) if q.get("dls") else 0),
                timestamp=r,
            )
            self.task[r] = t
            graphs[f"g{r}"] = N.TaskGraph(name=f"g{r}", tasks={t: []})
        self.req_of_task = {t.id: r for r, t in self.task.items()}
        self.workload = N.Workload.from_task_graphs(graphs)
        self.workers = []
        for wi, w in enumerate(self.cfg["Workers"], 1):
            vec = {N.Resource(name="GPU"): w["cap"]}
            if w["mem"]:
                vec[N.Resource(name="RAM")] = w["mem"]
            worker = N.Worker(name=f"w{wi}", resources=N.Resources(resource_vector=vec))
            for m in sorted(w["loaded"]):  # resident at the start: loaded in no time, holding its memory
                worker.load_profile(
                    self.profile[m], N.ExecutionStrategy(resources=ram(load_of[m]["mem"]), batch_size=1, runtime=us(0))
                )
            worker.step(us(0), us(1))  # pending -> available
            self.workers.append(worker)
        self.windex = {w.id: i for i, w in enumerate(self.workers, 1)}
        self.pool = N.WorkerPool(name="pool", workers=self.workers)
        self.pools = N.WorkerPools([self.pool])
        self.sched = ClockworkScheduler(
            runtime=us(0), goal=self.cfg["Goal"], _flags=flags_ns(scheduler_run_load=True) if self.cfg["RunLoad"] else None
        )
        if self.cfg.get("InitOrder"):
            # registers the models in this order; the loading placements it proposes are ignored
            # (the harness has loaded the profiles itself)
            self.sched.start(us(0), [self.profile[m] for m in self.cfg["InitOrder"]], self.pools)
        self.now = 0
        self.deadline = {}
        self.calls = []
        self.script = []
        self.out = dict(NO_OUT)
        self.crash = None

    # -- observation through public getters ------------------------------
    def free(self):
        return [w.resources.get_available_quantity(self.gpu_any) for w in self.workers]

    def loaded(self):
        return [sorted(self.model_of_profile[p.id] for p in w.get_available_profiles()) for w in self.workers]

    def on(self):
        return [sorted(self.req_of_task[t.id] for t in w.get_placed_tasks()) for w in self.workers]

    def pending(self):
        """per worker [model, remaining load time] of the models still loading"""
        US = ns().EventTime.Unit.US
        return [
            sorted([self.model_of_profile[p.id], w.is_available(p).to(US).time] for p in w.get_pending_profiles())
            for w in self.workers
        ]

    def fmem(self):
        return [w.resources.get_available_quantity(self.ram_any) for w in self.workers]

    def project(self):
        return _norm(
            {
                "out": self.out,
                "obs": {"free": self.free(), "on": self.on(), "loaded": self.loaded(), "pending": self.pending(),
                        "fmem": self.fmem()},
            }
        )  # fmt: skip

    # -- actions ---------------------------------------------------------
    def arrive(self, r, d):
        self.script.append(["Arrive", r, d])
        t = self.task[r]
        t.update_deadline(us(d))
        t.release(us(self.now))
        self.deadline[r] = d
        self.out = dict(NO_OUT)

    def tick(self, d):
        self.script.append(["Tick", d])
        done = self.pool.step(us(self.now), us(d))
        self.now += d
        for t in done:
            self.pool.remove_task(current_time=us(self.now), task=t)
            t.finish(us(self.now))
        self.out = dict(NO_OUT)

    def invoke(self):
        self.script.append(["Invoke"])
        N = ns()
        PT = N.Placement.PlacementType
        offered = [self.req_of_task[t.id] for t in self.workload.get_schedulable_tasks(time=us(self.now))]
        call = {
            "now": self.now,
            "offered": sorted(offered),
            "cancelled": [],
            "batches": [],
            "free": self.free(),
            "loaded": self.loaded(),
            "failed": [],
            "evicts": [],
            "loads": [],
            "pending": [[m for m, _ in ps] for ps in self.pending()],
            "fmem": self.fmem(),
            "lfailed": [],
        }
        placements = self.sched.schedule(us(self.now), self.workload, self.pools)
        by_batch = collections.OrderedDict()
        evicts, loads = [], []
        US = N.EventTime.Unit.US
        for p in placements:
            if p.placement_type == PT.CANCEL_TASK:
                call["cancelled"].append(self.req_of_task[p.task.id])
            elif p.placement_type == PT.PLACE_TASK and p.is_placed():
                by_batch.setdefault(p.execution_strategy.id, []).append(p)
            elif p.placement_type == PT.EVICT_WORK_PROFILE:
                evicts.append(p)
                call["evicts"].append(
                    {"m": self.model_of_profile.get(p.work_profile.id, "?"), "w": self.windex.get(p.worker_id, 0)}
                )
            elif p.placement_type == PT.LOAD_WORK_PROFILE:
                loads.append(p)
                ls = p.loading_strategy
                call["loads"].append(
                    {
                        "m": self.model_of_profile.get(p.work_profile.id, "?"),
                        "w": self.windex.get(p.worker_id, 0),
                        "mem": ls.resources.get_total_quantity(self.ram_any),
                        "lt": ls.runtime.to(US).time,
                    }
                )
        for ps in by_batch.values():
            es = ps[0].execution_strategy
            call["batches"].append(
                {
                    "m": self.model_of_profile.get(ps[0].task.profile.id, "?"),
                    "b": es.batch_size,
                    "rt": es.runtime.to(N.EventTime.Unit.US).time,
                    "dem": es.resources.get_total_quantity(self.gpu_any),
                    "w": self.windex.get(ps[0].worker_id, 0),
                    "reqs": [self.req_of_task[p.task.id] for p in ps],
                }
            )
        # apply the answer the way the simulator does: events of one instant are handled in the order of
        # their EventType (TASK_CANCEL, EVICT_PROFILE, LOAD_PROFILE, TASK_PLACEMENT)
        for i, p in enumerate(evicts, 1):
            try:
                self.pool.evict_profile(p.work_profile, p.worker_id)
            except (ValueError, KeyError):  # not on that worker / no such worker
                call["lfailed"].append(-i)
        for i, p in enumerate(loads, 1):
            try:
                self.pool.load_profile(p.work_profile, p.loading_strategy, p.worker_id)
            except (ValueError, KeyError, RuntimeError):  # the ledger refuses the allocation / no such worker
                call["lfailed"].append(i)
        for p in placements:
            t = p.task if p.placement_type in (PT.CANCEL_TASK, PT.PLACE_TASK) else None
            if t is None:
                continue
            if p.placement_type == PT.CANCEL_TASK:
                if t.state == N.TaskState.RELEASED:
                    t.cancel(us(self.now))
                continue
            if not p.is_placed() or t.state != N.TaskState.RELEASED:
                continue  # placed before (or cancelled): nothing to apply a second time
            t.schedule(us(self.now), p)
            try:
                ok = self.pool.place_task(t, execution_strategy=p.execution_strategy, worker_id=p.worker_id)
            except (ValueError, RuntimeError):
                ok = False
            if ok:
                t.start(us(self.now))
            else:
                call["failed"].append(self.req_of_task[t.id])
        call["cancelled"].sort()
        self.calls.append(call)
        self.out = {
            "at": self.now,
            "offered": call["offered"],
            "cancelled": call["cancelled"],
            "batches": sorted([b["m"], b["b"], b["w"], sorted(b["reqs"])] for b in call["batches"]),
            "free": call["free"],
            "evicts": sorted([e["m"], e["w"]] for e in call["evicts"]),
            "loads": sorted([l["m"], l["w"]] for l in call["loads"]),
            "loaded": call["loaded"],
            "pending": call["pending"],
            "fmem": call["fmem"],
        }
        return call

    # -- replay adapter interface ------------------------------------------
    def apply(self, name, args):
        if name == "Arrive":
            self.arrive(int(args[0]), int(args[1]))
        elif name == "Tick":
            self.tick(int(args[0]))
        elif name.startswith("Invoke") or name.startswith("Schedule"):
            self.invoke()
        else:
            raise AssertionError(name)
        return True

    def abstract(self, state):
        o = state["out"]
        return _norm(
            {
                "out": {
                    "at": o["at"],
                    "offered": o["offered"],
                    "cancelled": o["cancelled"],
                    "batches": sorted([b["m"], b["b"], b["w"], sorted(b["reqs"])] for b in o["batches"]),
                    "free": o["free"],
                    "evicts": sorted([e["m"], e["w"]] for e in o["evicts"]),
                    "loads": sorted([l["m"], l["w"]] for l in o["loads"]),
                    "loaded": o["loaded"],
                    "pending": o["pending"],
                    "fmem": o["fmem"],
                },
                "obs": state["obs"],
            }
        )

    def history(self, hid):
        """The execution so far as a JSON history for RecCheck."""
        return {
            "id": hid,
            "world": {
                "strats": {m: [dict(s) for s in self.cfg["Strats"][m]] for m in self.models},
                "reqs": [
                    {"m": q["m"], "dl": self.deadline.get(r, 0)} for r, q in enumerate(self.cfg["Reqs"], 1)
                ],
                "load": {m: dict(self.cfg["LoadOf"][m]) for m in self.models},
            },
            "calls": list(self.calls),
            "goal": self.cfg["Goal"],
            "cfg": _norm({k: self.cfg[k] for k in ("Strats", "Reqs", "Workers", "Goal", "InitOrder", "RunLoad", "LoadOf")}),
            "script": list(self.script),
        }


class CollectingWorld(RealWorld):
    """RealWorld that keeps the histories of all executions started with fresh()."""

    def __init__(self, cfg, tag, cap=4000):
        super().__init__(cfg)
        self.tag = tag
        self.cap = cap
        self.hist = {}
        self.n_exec = 0
        self.calls = []
        self.script = []
        self.deadline = {}

    def _flush(self):
        if self.calls:
            h = self.history("")
            key = json.dumps([h["world"]["reqs"], h["calls"]], sort_keys=True)
            if key not in self.hist and len(self.hist) < self.cap:
                h["id"] = f"{self.tag}#{len(self.hist)}"
                self.hist[key] = h

    def fresh(self):
        self._flush()
        self.n_exec += 1
        super().fresh()

    def histories(self):
        self._flush()
        self.calls = []
        return list(self.hist.values())


# ---------------------------------------------------------------------------
# T: record checking with TLC

_BAD_RE = re.compile(r'^<<"@@(bad|count)",')


def rec_check(histories, scratch, name):
    """Run RecCheck over the histories (one TLC run).  Returns (bad, counts, TLCResult):
    bad = [(history id, call index, clause, item)]."""
    name = re.sub(r"\W", "_", name)
    path = os.path.join(scratch, f"{name}.json")
    with open(path, "w") as f:
        json.dump([{"id": h["id"], "world": h["world"], "calls": h["calls"]} for h in histories], f)
    mod, cf = mcgen.write_mc(
        scratch,
        "Clockwork",
        DUMMY_CONSTANTS,
        name=f"MC_Rec_{name}",
        init_next=("Init", "RecNext"),
        extends="Json",
        extra_defs=f'Hist == JsonDeserialize("{path}")\nASSUME RecCheck(Hist)',
    )
    r = tlc.run_tlc(mod, cf, workers=1, java_opts=JOPTS, coverage=False, timeout=3000)
    if not r.ok:
        raise tlc.TLCMachineryError(f"record checking run failed: {r.violation_kind} {r.violation_name}\n{r.stdout[-3000:]}")
    bad, counts = [], {}
    for line in r.stdout.splitlines():
        if not _BAD_RE.match(line):
            continue
        v = tlaval.parse(line.strip())
        if v[0] == "@@bad":
            bad.append((v[1], v[2], v[3], v[4]))
        else:
            counts[v[1]] = v[2]
    if "histories" not in counts:
        raise tlc.TLCMachineryError(f"record checking printed no summary:\n{r.stdout[-3000:]}")
    return bad, counts, r


def _rec_check_job(histories, name):
    with Scratch() as scratch:
        bad, counts, r = rec_check(histories, scratch, name)
    return bad, counts, r.wall_s


def check_histories(res, histories, label, chunk=1500, par=True):
    """RecCheck in chunks (parallel only from the top-level process); violations for the
    property clauses.  Returns the set of history ids with a broken property clause."""
    if not histories:
        return set()
    base = label.split("@")[0]
    by_id = {h["id"]: h for h in histories}
    jobs = [(histories[i : i + chunk], f"{label}_{i // chunk}") for i in range(0, len(histories), chunk)]
    broken = set()
    total = collections.Counter()
    wall = 0.0
    seen_keys = collections.Counter()
    results = parallel(_rec_check_job, jobs) if par else [_rec_check_job(*j) for j in jobs]
    for bad, counts, w in results:
        wall += w
        total.update(counts)
        for hid, ci, clause, item in bad:
            broken.add(hid)
            h = by_id[hid]
            call = h["calls"][ci - 1] if ci >= 1 else None
            seen_keys[clause] += 1
            if seen_keys[clause] > 2:
                continue
            res.violate(
                clause,
                f"{base}: real ClockworkScheduler execution breaks {clause} "
                f"(history {hid}, call {ci}, item {item})",
                {"history": h, "call_index": ci, "call": call, "item": item, "goal": h.get("goal")},
                key=f"{clause}|{base}",
            )
    res.traces_validated += len(histories)
    res.extra.setdefault("record_check", {})[label] = dict(total, tlc_wall_s=round(wall, 1), failing=dict(seen_keys))
    return broken


# ---------------------------------------------------------------------------
# T: random histories on worlds beyond the model-checking bound


def random_world(rnd):
    nm = rnd.choice([2, 3, 3])
    models = ["A", "B", "C"][:nm]
    strats = {}
    for m in models:
        sizes = sorted(rnd.sample([1, 2, 3, 4], rnd.choice([1, 2, 2, 3])))
        base = rnd.choice([1, 2])
        # runtime grows with the batch size (sub-linearly), demand 1..2
        strats[m] = [S(b, base + (b - 1) // rnd.choice([1, 2]) + rnd.choice([0, 0, 1]), rnd.choice([1, 1, 2])) for b in sizes]
        rnd.shuffle(strats[m])
    nreq = rnd.randint(4, 12)
    reqs = [{"m": rnd.choice(models), "dls": set(), "arr": 0} for _ in range(nreq)]
    nw = rnd.choice([2, 2, 3])
    workers = []
    for _ in range(nw):
        workers.append(Wk(rnd.choice([1, 2, 2, 3]), rnd.sample(models, rnd.randint(1, nm))))
    init = rnd.sample(models, rnd.choice([0, 0, nm, rnd.randint(0, nm)]))
    return {
        "Strats": strats,
        "Reqs": reqs,
        "Workers": workers,
        "Goal": rnd.choice(["clockwork", "least_slack"]),
        "InitOrder": init,
    }


def random_load_world(rnd):
    """run_load on: 2-4 models of different size / load time / request rate / urgency, workers whose model
    memory holds only some of them (an absent model needs an eviction), residents chosen at random"""
    nm = rnd.choice([2, 3, 3, 4])
    models = ["A", "B", "C", "D"][:nm]
    strats, load, rate, slack = {}, {}, {}, {}
    for m in models:
        sizes = sorted(rnd.sample([1, 2, 3, 4], rnd.choice([1, 2, 2, 3])))
        base = rnd.choice([1, 2])
        strats[m] = [S(b, base + (b - 1) // rnd.choice([1, 2]) + rnd.choice([0, 0, 1]), rnd.choice([1, 1, 2])) for b in sizes]
        rnd.shuffle(strats[m])
        load[m] = L(rnd.choice([1, 1, 2]), rnd.choice([1, 1, 2, 3]))
        rate[m] = rnd.choice([1, 1, 2, 4, 6])  # hot and cold models
        # urgent models (little slack: high load priority) and relaxed ones (whose full batches wait on time)
        slack[m] = rnd.choice([[0, 1, 1, 2, 3], [2, 3, 4, 6], [4, 6, 8, 10, 12], [-1, 0, 1, 2, 3, 4, 6, 8]])
    nreq = rnd.randint(5, 16)
    pool = [m for m in models for _ in range(rate[m])]
    reqs = [{"m": rnd.choice(pool), "dls": set(), "arr": 0} for _ in range(nreq)]
    biggest = max(load[m]["mem"] for m in models)
    total = sum(load[m]["mem"] for m in models)
    workers = []
    for _ in range(rnd.choice([1, 2, 2, 3])):
        mem = rnd.choice([biggest, biggest, max(biggest, total - 1), max(biggest, total // 2), total])
        resident, left = [], mem
        for m in rnd.sample(models, nm):
            if load[m]["mem"] <= left and rnd.random() < 0.85:
                resident.append(m)
                left -= load[m]["mem"]
        workers.append(Wk(rnd.choice([1, 2, 2, 3]), resident, mem))
    init = rnd.sample(models, rnd.choice([0, nm, nm, rnd.randint(0, nm)]))
    return {
        "Strats": strats,
        "Reqs": reqs,
        "Workers": workers,
        "Goal": rnd.choice(["clockwork", "least_slack"]),
        "InitOrder": init,
        "RunLoad": True,
        "LoadOf": load,
        "_slack": slack,
    }


def random_history(seed_salt, n, load=False):
    """n random executions on the real scheduler -> histories (JSON)."""
    rnd = rng(seed_salt)
    out = []
    stats = collections.Counter()
    for i in range(n):
        cfg = random_load_world(rnd) if load else random_world(rnd)
        slacks = cfg.pop("_slack", None)
        wd = RealWorld(cfg)
        wd.fresh()
        pending = list(range(1, wd.nreq + 1))
        rnd.shuffle(pending)
        steps = 0
        try:
            while steps < (60 if load else 40) and (pending or steps < 12):
                steps += 1
                x = rnd.random()
                if pending and x < 0.45:
                    for _ in range(rnd.choice([1, 1, 2, 3])):
                        if pending:
                            r = pending.pop()
                            m = cfg["Reqs"][r - 1]["m"]
                            fastest = min(s["rt"] for s in cfg["Strats"][m])
                            slack = rnd.choice(slacks[m] if slacks else [-1, 0, 0, 1, 1, 2, 2, 3, 4, 6])
                            wd.arrive(r, max(0, wd.now + fastest + slack))
                elif x < 0.75:
                    wd.invoke()
                    if rnd.random() < 0.15:
                        wd.invoke()
                else:
                    wd.tick(rnd.choice([1, 1, 2, 3]))
            wd.invoke()
        except Exception as ex:  # the code under test raised: keep what was observed
            wd.crash = f"{type(ex).__name__}: {ex}"
            wd.crash_site = _crash_site(ex)
        h = wd.history(f"{seed_salt}/{i}")
        if wd.crash:
            h["crash"] = wd.crash
            h["crash_site"] = wd.crash_site
            stats["crashed"] += 1
        stats["calls"] += len(h["calls"])
        out.append(h)
    return out, dict(stats)


def _t_job(salt, n, tier, load=False):
    res = CheckResult(PID, tier)
    t0 = time.time()
    histories, st = random_history(salt, n, load)
    crashed = [h for h in histories if "crash" in h]
    for h in crashed[:2]:
        res.violate(
            _crash_clause(h["crash"]),
            f"ClockworkScheduler{' (run_load)' if load else ''} raised on a random history: {h['crash']}",
            {"history": h},
            key=f"crash|run_load|{h['crash_site']}" if load else f"crash|{h['crash'].split(':')[0]}",
        )
    res.extra["random_histories"] = {
        "jobs": 1,
        "histories": len(histories),
        "calls": sum(len(h["calls"]) for h in histories),
        "crashed": len(crashed),
        "clockwork": sum(h["goal"] == "clockwork" for h in histories),
        "least_slack": sum(h["goal"] == "least_slack" for h in histories),
        "with_12_requests": sum(len(h["world"]["reqs"]) >= 12 for h in histories),
        "run_load": len(histories) if load else 0,
        "run_wall_s": round(time.time() - t0, 1),
    }
    res.extra["random_histories"] = {salt: res.extra["random_histories"]}
    check_histories(res, histories, f"{'random_run_load' if load else 'random'}@{salt}", chunk=3000, par=False)
    if salt.endswith("TL0"):
        for h in histories:
            if len(res.samples) < 1 and any(c["evicts"] and c["batches"] for c in h["calls"]):
                res.samples.append(
                    {"kind": "random run_load history checked by RecCheck", "id": h["id"], "goal": h["goal"],
                     "world": h["world"], "workers": h["cfg"]["Workers"],
                     "calls": [c for c in h["calls"] if c["evicts"] or c["loads"]][:3]}
                )
    if salt.endswith("T0"):
        for h in histories:
            if any(b["b"] > 1 for c in h["calls"] for b in c["batches"]) and len(res.samples) < 1:
                res.samples.append(
                    {"kind": "random history checked by RecCheck", "id": h["id"], "goal": h["goal"],
                     "reqs": h["world"]["reqs"], "calls": [c for c in h["calls"] if c["offered"]][:3]}
                )
    return res


# ---------------------------------------------------------------------------
# M: exhaustive model checking

_COV_RE = re.compile(r"^<(\w+) line \d+, col \d+ to line \d+, col \d+ of module (\w+)[^>]*>: (\d+):(\d+)\s*$")

S12 = [S(1, 1), S(2, 2)]
S12d = [S(1, 1), S(2, 2, 2)]
S124 = [S(1, 1), S(2, 2), S(4, 3)]


def mc_worlds(tier):
    """name -> constants (without Goal)."""
    w = {}
    # one worker, both models loaded: competition of the models for the worker, re-queueing
    w["1w"] = {
        "Strats": {"A": S12, "B": S12},
        "Reqs": [Q("A", {2, 4}), Q("A", {3}), Q("B", {3, 5}), Q("B", {4})],
        "Workers": [Wk(1, "AB")],
        "InitOrder": [],
        "MaxT": 5,
        "Steps": {1, 2},
    }
    # two workers with different loaded models and capacities, a strategy that needs two units,
    # strategies listed slowest first, models pre-registered in reverse order
    w["2w"] = {
        "Strats": {"A": [S(2, 2, 2), S(1, 1)], "B": S12},
        "Reqs": [Q("B", {3}), Q("A", {2, 3}), Q("A", {3, 5}), Q("B", {4})],
        "Workers": [Wk(1, "A"), Wk(2, "AB")],
        "InitOrder": ["B", "A"],
        "MaxT": 5,
        "Steps": {1, 2},
    }
    # equal deadlines everywhere: insort ties, stable least-slack order
    w["ties"] = {
        "Strats": {"A": S12, "B": [S(2, 1)]},
        "Reqs": [Q("A", {3}), Q("B", {3}), Q("A", {3}), Q("B", {3}), Q("A", {4})][: 4 if tier == "quick" else 5],
        "Workers": [Wk(2, "AB")],
        "InitOrder": [],
        "MaxT": 4,
        "Steps": {1},
    }
    if tier != "quick":
        w["b124"] = {
            "Strats": {"A": S124, "B": S12d},
            "Reqs": [Q("A", {3, 4}), Q("A", {4, 6}), Q("A", {5}), Q("A", {3, 6}), Q("B", {3, 4}), Q("B", {5})],
            "Workers": [Wk(2, "AB")],
            "InitOrder": [],
            "MaxT": 6,
            "Steps": {1, 2},
        }
        w["b124_2w"] = {
            "Strats": {"A": S124, "B": S12d},
            "Reqs": [Q("A", {5}), Q("A", {4, 5}), Q("B", {3, 5}), Q("A", {4, 6}), Q("A", {5, 6}), Q("B", {4})],
            "Workers": [Wk(1, "AB"), Wk(2, "A")],
            "InitOrder": ["B"],
            "MaxT": 6,
            "Steps": {1, 2},
        }
        w["1w_5"] = {
            "Strats": {"A": S12, "B": S12d},
            "Reqs": [Q("A", {2, 4}), Q("B", {3, 5}), Q("A", {3}), Q("B", {4}), Q("A", {1, 6})],
            "Workers": [Wk(2, "AB")],
            "InitOrder": [],
            "MaxT": 6,
            "Steps": {1, 2},
        }
        # six requests, three per model
        w["6req"] = {
            "Strats": {"A": S124, "B": S12},
            "Reqs": [Q("A", {4}), Q("B", {3, 5}), Q("A", {4, 6}), Q("B", {5}), Q("A", {3, 5}), Q("B", {4})],
            "Workers": [Wk(1, "AB"), Wk(1, "B")],
            "InitOrder": [],
            "MaxT": 5,
            "Steps": {1, 2},
        }
    return w


# small worlds whose whole graph is dumped and replayed
def replay_worlds(tier):
    w = {}
    w["r1"] = {
        "Strats": {"A": S12, "B": S12},
        "Reqs": [Q("A", {2, 3}), Q("A", {3}), Q("B", {3})],
        "Workers": [Wk(1, "AB")],
        "InitOrder": [],
        "MaxT": 3,
        "Steps": {1, 2},
    }
    w["r2"] = {
        "Strats": {"A": [S(2, 2, 2), S(1, 1)], "B": [S(1, 2)]},
        "Reqs": [Q("B", {3}), Q("A", {2, 4}), Q("A", {3})],
        "Workers": [Wk(1, "A"), Wk(2, "AB")],
        "InitOrder": ["B", "A"],
        "MaxT": 3,
        "Steps": {1},
    }
    # three requests of one model: the queues of its strategies differ after per-strategy expiry
    w["r3"] = {
        "Strats": {"A": S12},
        "Reqs": [Q("A", {1, 3}), Q("A", {3}), Q("A", {2, 3})],
        "Workers": [Wk(2, "A")],
        "InitOrder": [],
        "MaxT": 3,
        "Steps": {1},
    }
    return w


# bigger worlds explored with `-simulate` only
def simulate_worlds(tier):
    w = {}
    w["simA"] = {
        "Strats": {"A": [S(4, 3, 2), S(1, 1), S(2, 2)], "B": [S(1, 1), S(3, 2)], "C": [S(2, 2, 2), S(1, 2)]},
        "Reqs": [
            Q("A", {3, 5, 8}), Q("B", {2, 4, 7}), Q("A", {4, 6}), Q("C", {3, 6, 9}), Q("A", {4, 5, 9}), Q("B", {4, 5}),
            Q("A", {5, 7}), Q("C", {4, 8}), Q("B", {3, 6, 8}), Q("A", {2, 6, 9}),
        ],
        "Workers": [Wk(2, "AB"), Wk(1, "BC"), Wk(3, "AC")],
        "InitOrder": ["C"],
        "MaxT": 9,
        "Steps": {1, 2, 3},
    }
    # twelve requests, one hot model with four strategies, a model that is loaded nowhere
    w["simB"] = {
        "Strats": {"A": [S(2, 2), S(4, 4, 2), S(1, 2), S(3, 3)], "B": [S(2, 1, 2), S(1, 1)], "C": [S(1, 1)]},
        "Reqs": [
            Q("A", {4, 6}), Q("A", {4, 6}), Q("A", {5, 7}), Q("B", {2, 5}), Q("A", {5, 6}), Q("A", {6, 8}), Q("C", {5}),
            Q("B", {3, 5}), Q("A", {6, 7}), Q("A", {3, 8}), Q("B", {4, 6}), Q("A", {7, 8}),
        ],
        "Workers": [Wk(2, "A"), Wk(2, "AB")],
        "InitOrder": ["A", "C"],
        "MaxT": 8,
        "Steps": {1, 2},
    }
    return w


# worlds with --scheduler_run_load: model memory is tight, the policy loads / evicts itself
LAB = {"A": L(1, 1), "B": L(1, 1)}


def load_mc_worlds(tier):
    """exhaustive over arrival histories, instants and *every* priority order run_load may see"""
    w = {}
    # one worker that holds one model: every load needs the eviction of the resident model, whose
    # requests (a full on-time batch of two) may be queued at that instant
    w["L1"] = {
        "Strats": {"A": S12, "B": S12},
        "Reqs": [Q("A", {3, 4}), Q("A", {4}), Q("B", {3, 4}), Q("B", {4})],
        "Workers": [Wk(1, "A", 1)],
        "InitOrder": ["B"],
        "MaxT": 4,
        "Steps": {1, 2},
        "RunLoad": True,
        "LoadOf": {"A": L(1, 1), "B": L(1, 2)},
    }
    # two workers with different residents and memories, models of different size
    w["L2"] = {
        "Strats": {"A": [S(1, 1)], "B": S12},
        "Reqs": ([Q("A", {3})] if tier == "quick" else [Q("A", {2, 3}), Q("A", {4})]) + [Q("B", {3}), Q("B", {3, 4})],
        "Workers": [Wk(1, "A", 2), Wk(2, "B", 2)],
        "InitOrder": [],
        "MaxT": 3 if tier == "quick" else 4,
        "Steps": {1},
        "RunLoad": True,
        "LoadOf": {"A": L(1, 1), "B": L(2, 1)},
    }
    if tier != "quick":
        # three models on a worker that holds two: the eviction leaves another model loaded, whose batch
        # goes to the evicting worker in the same answer
        w["L3"] = {
            "Strats": {"A": S12, "B": [S(1, 1)], "C": [S(1, 1)]},
            "Reqs": [Q("A", {3, 4}), Q("A", {4}), Q("B", {3}), Q("C", {3, 4}), Q("C", {4})],
            "Workers": [Wk(2, "AB", 2)],
            "InitOrder": ["C"],
            "MaxT": 4,
            "Steps": {1, 2},
            "RunLoad": True,
            "LoadOf": {"A": L(1, 1), "B": L(1, 1), "C": L(1, 2)},
        }
        w["L1_5"] = dict(w["L1"], MaxT=5, Reqs=w["L1"]["Reqs"] + [Q("A", {5})])
    return w


def load_replay_worlds(tier):
    """small enough for the whole graph to be dumped and walked on the real scheduler"""
    w = {}
    w["lr1"] = {
        "Strats": {"A": S12, "B": [S(1, 1)]},
        "Reqs": [Q("A", {3}), Q("A", {3, 4}), Q("B", {3, 4})],
        "Workers": [Wk(1, "A", 1)],
        "InitOrder": ["B"],
        "MaxT": 3,
        "Steps": {1},
        "RunLoad": True,
        "LoadOf": LAB,
    }
    # three models, the worker holds the two small ones or the big one (loading it takes two evictions, the
    # first of which does not make room), compute for two batches
    w["lr2"] = {
        "Strats": {"A": [S(1, 1)], "B": [S(1, 2)], "C": [S(1, 1)]},
        "Reqs": [Q("A", {3}), Q("B", {3}), Q("C", {3, 4})],
        "Workers": [Wk(2, "AB", 2)],
        "InitOrder": ["A", "B", "C"],
        "MaxT": 3,
        "Steps": {1},
        "RunLoad": True,
        "LoadOf": {"A": L(1, 1), "B": L(1, 1), "C": L(2, 1)},
    }
    # two workers, each holds one model
    w["lr3"] = {
        "Strats": {"A": [S(1, 1)], "B": S12},
        "Reqs": [Q("A", {3}), Q("B", {3}), Q("B", {3})],
        "Workers": [Wk(1, "A", 1), Wk(1, "B", 1)],
        "InitOrder": [],
        "MaxT": 3,
        "Steps": {1},
        "RunLoad": True,
        "LoadOf": LAB,
    }
    return w


def load_simulate_worlds(tier):
    """bigger worlds: TLC `-simulate` behaviours are used as action scripts on the real scheduler"""
    w = {}
    w["lsA"] = {
        "Strats": {"A": [S(1, 1), S(2, 2)], "B": [S(2, 2, 2), S(1, 1)], "C": [S(1, 2), S(3, 3)]},
        "Reqs": [
            Q("A", {4, 6, 9}), Q("B", {5, 7}), Q("A", {5, 8}), Q("C", {6, 9}), Q("B", {6, 8, 10}), Q("A", {6, 7}),
            Q("C", {7, 10}), Q("C", {8, 10}), Q("B", {7, 9}), Q("A", {8, 10}),
        ],
        "Workers": [Wk(2, "A", 2), Wk(2, "BC", 3)],
        "InitOrder": ["C", "A", "B"],
        "MaxT": 10,
        "Steps": {1, 2, 3},
        "RunLoad": True,
        "LoadOf": {"A": L(1, 1), "B": L(2, 2), "C": L(1, 3)},
    }
    w["lsB"] = {
        "Strats": {"A": [S(2, 2), S(1, 1)], "B": [S(1, 1), S(2, 1, 2)], "C": [S(1, 1)], "D": [S(2, 3), S(1, 2)]},
        "Reqs": [
            Q("A", {5, 8}), Q("A", {5, 8}), Q("B", {4, 6}), Q("D", {6, 9}), Q("C", {5, 7}), Q("D", {6, 9}), Q("B", {6, 8}),
            Q("A", {7, 9}), Q("C", {6, 9}), Q("D", {8, 10}), Q("B", {7, 10}), Q("A", {8, 10}),
        ],
        "Workers": [Wk(1, "AB", 2), Wk(2, "C", 2), Wk(2, "AD", 2)],
        "InitOrder": [],
        "MaxT": 10,
        "Steps": {1, 2},
        "RunLoad": True,
        "LoadOf": {"A": L(1, 2), "B": L(1, 1), "C": L(2, 2), "D": L(1, 1)},
    }
    return w


class NDWalker:
    """Replay of a state graph whose Invoke edges are non-deterministic (run_load's priority order is
    free in the spec): the harness chooses Arrive / Tick / Invoke, executes it on the real world and
    continues in the successor whose `out` / `obs` equal the projection of the real objects.  No such
    successor = the real answer is none of the answers the spec allows (divergence, clause batch_eq)."""

    def __init__(self, graph, world):
        self.g = graph
        self.ad = world
        self.moves = {}  # node -> OrderedDict move -> [dst]
        for n, outs in graph.edges.items():
            mv = collections.OrderedDict()
            for label, dst in outs:
                key = "Invoke" if label.startswith(("Invoke", "Schedule")) else label
                if dst not in mv.setdefault(key, []):
                    mv[key].append(dst)
            self.moves[n] = mv
        self.abs_cache = {}
        self.divergences = []
        self.div_keys = collections.Counter()
        self.steps = self.paths = 0
        self.covered = set()  # (node, move)
        self.realised = set()  # (node, dst) over Invoke moves
        self.nd_choices = collections.Counter()  # number of spec alternatives -> invocations

    def abstract(self, nid):
        a = self.abs_cache.get(nid)
        if a is None:
            a = self.abs_cache[nid] = self.ad.abstract(self.g.states[nid])
        return a

    def _record(self, d):
        self.div_keys[d.key()] += 1
        if self.div_keys[d.key()] <= 3:
            self.divergences.append(d)

    def start(self):
        self.paths += 1
        self.ad.fresh()
        init = self.g.init[0]
        got, exp = self.ad.project(), self.abstract(init)
        if got != exp:
            self._record(rpl.Divergence("init", "", rpl.diff_fields(exp, got), [], exp, got))
            return None
        return init

    def step(self, node, move, path):
        """returns the successor the real world went to, None after a divergence"""
        name, args = tlaval.split_call(move)
        self.steps += 1
        self.covered.add((node, move))
        try:
            self.ad.apply(name, args)
        except Exception as ex:  # noqa
            self._record(rpl.Divergence("exception", move, {_crash_site(ex)}, path + [move], error=repr(ex)))
            return None
        got = self.ad.project()
        dsts = self.moves[node][move]
        if move == "Invoke":
            self.nd_choices[len(dsts)] += 1
        for dst in dsts:
            if self.abstract(dst) == got:
                if move == "Invoke":
                    self.realised.add((node, dst))
                return dst
        # nearest alternative, for the report
        best = min(dsts, key=lambda d: len(rpl.diff_fields(self.abstract(d), got)))
        exp = self.abstract(best)
        self._record(rpl.Divergence("state", move, rpl.diff_fields(exp, got), path + [move], exp, got))
        return None

    def all_scripts(self, depth, budget_s):
        """every maximal sequence of moves of length <= depth (depth-first; the real world is deterministic,
        so a script always ends in the same node), each executed from fresh objects; budgets are CPU seconds of
        this process (safety nets that do not depend on the load of the machine)"""
        t0 = time.process_time()
        script = []
        while time.process_time() - t0 < budget_s:
            node = self.start()
            path, nodes = [], [node]
            while node is not None and len(path) < depth:
                mvs = list(self.moves[node])
                if not mvs:
                    break
                mv = script[len(path)] if len(path) < len(script) else mvs[0]
                node = self.step(node, mv, path)
                path.append(mv)
                nodes.append(node)
            # next script: the deepest position with a move not tried yet
            i = len(path) - 1
            while i >= 0:
                mvs = list(self.moves[nodes[i]])
                k = mvs.index(path[i])
                if k + 1 < len(mvs):
                    script = path[:i] + [mvs[k + 1]]
                    break
                i -= 1
            else:
                return True
        return False

    def walks(self, n, depth, rnd, budget_s):
        """random walks that prefer moves not executed yet"""
        t0 = time.process_time()
        for _ in range(n):
            if time.process_time() - t0 > budget_s:
                break
            node = self.start()
            path = []
            for _ in range(depth):
                if node is None:
                    break
                mv = list(self.moves[node])
                if not mv:
                    break
                new = [m for m in mv if (node, m) not in self.covered]
                m = rnd.choice(new) if new and rnd.random() < 0.8 else rnd.choice(mv)
                node = self.step(node, m, path)
                path.append(m)

    def total_moves(self):
        return sum(len(m) for m in self.moves.values())


def _crash_site(ex):
    """innermost frame of the repository in the traceback of `ex`: 'file.py:function:ExceptionType'
    (a finding key that does not depend on the world / leg that ran into it)"""
    import traceback

    here = os.path.dirname(os.path.abspath(__file__))
    site = "?"
    for fr in traceback.extract_tb(ex.__traceback__):
        if not os.path.abspath(fr.filename).startswith(here):
            site = f"{os.path.basename(fr.filename)}:{fr.name}"
    return f"{site}:{type(ex).__name__}"


def _crash_clause(msg):
    """an exception out of schedule(): the virtual worker's ledger refusing an allocation is the
    'worker can hold the strategy' clause, anything else is reported as a crash"""
    return "C15.fits" if "allocate more than the available" in msg else "C15.crash"


def _fix_coverage(r):
    for line in r.stdout.splitlines():
        m = _COV_RE.match(line)
        if m and m.group(1) not in r.coverage:
            r.coverage[m.group(1)] = (int(m.group(3)), int(m.group(4)))


def _tlc_violation(res, r, name, cfg):
    inv = r.violation_name or "?"
    clause = INVARIANTS.get(inv, "spec.sanity")
    res.violate(
        clause if clause != "spec.sanity" else "C15.spec",
        f"TLC: {r.violation_kind} {inv} violated in Clockwork.tla ({name})",
        {"constants": _norm(cfg), "trace": [[h, _norm(s)] for h, s in r.trace]},
        key=f"spec:{name}:{inv}",
    )


def _mc_job(name, cfg, tier, cov):
    res = CheckResult(PID, tier)
    cfg = full(cfg)
    with Scratch() as scratch:
        mod, cf = mcgen.write_mc(scratch, "Clockwork", cfg, name="MC_Clockwork", invariants=list(INVARIANTS))
        r = tlc.run_tlc(mod, cf, workers=2 if tier == "quick" else 4, java_opts=JOPTS, timeout=7200, coverage=cov)
    _fix_coverage(r)
    res.add_tlc(f"M/{name}", r)
    if not r.ok:
        _tlc_violation(res, r, name, cfg)
    return res


def jobs_M(tier):
    jobs = []
    for wn, w in mc_worlds(tier).items():
        for goal in ("clockwork", "least_slack"):
            # `-coverage 1` roughly doubles the cost: per-action coverage is collected on the quick-tier
            # worlds (and on every dumped graph in R)
            jobs.append((_mc_job, (f"{wn}/{goal}", dict(w, Goal=goal), tier, wn in ("1w", "2w", "ties"))))
    goals = ("clockwork", "least_slack")
    for i, (wn, w) in enumerate(load_mc_worlds(tier).items()):
        # (the goal only orders the inference loop; quick: one goal per world, alternating with the seed)
        for goal in goals if tier != "quick" else (goals[(i + verif_seed()) % 2],):
            jobs.append((_mc_job, (f"{wn}/{goal}", dict(w, Goal=goal), tier, False)))
    return jobs


# ---------------------------------------------------------------------------
# R: replay of TLC behaviours on the real scheduler


def _shape_stats(g):
    c = collections.Counter()
    for s in g.states.values():
        o = s["out"]
        if o["at"] < 0:
            continue
        c["invocation_states"] += 1
        if o["batches"]:
            c["with_batches"] += 1
        if any(b["b"] > 1 for b in o["batches"]):
            c["with_batch_size_gt1"] += 1
        if len(o["batches"]) > 1:
            c["with_several_batches"] += 1
        if o["cancelled"]:
            c["with_cancellations"] += 1
        if o["cancelled"] and o["batches"]:
            c["cancel_and_place"] += 1
    return dict(c)


def _divergences(res, rp, name, broken_ids, world, crash_key=None):
    """batch_eq: disagreements with the spec's exact answer are notes; a VIOLATION only if a
    property clause is broken in an execution of the same replay."""
    if not rp.div_keys:
        return
    info = {
        "model": name,
        "divergence_keys": dict(rp.div_keys),
        "first": [d.detail() for d in rp.divergences[:2]],
    }
    res.extra.setdefault("batch_eq_disagreements", []).append(info)
    res.notes.append(
        f"C15.batch_eq: {sum(rp.div_keys.values())} replay steps of {name} disagree with the spec's exact answer "
        f"({dict(rp.div_keys)}); first path: {rp.divergences[0].path}"
    )
    if broken_ids:
        d = rp.divergences[0]
        res.violate(
            "C15.batch_eq",
            f"{name}: the real scheduler's answer differs from the spec's ({d.describe()}) and property clauses "
            f"are broken in {len(broken_ids)} replayed executions",
            d.detail(),
            key=f"batch_eq|{name}|{d.key()}",
        )
    exc = [d for d in rp.divergences if d.kind == "exception"]
    if exc:
        res.violate(
            _crash_clause(exc[0].error or ""),
            f"{name}: the real objects raised while replaying a spec behaviour: {exc[0].error}",
            exc[0].detail(),
            key=crash_key(exc[0]) if crash_key else f"crash|{name}|{sorted(exc[0].fields)}",
        )


def _replay_graph_job(name, cfg, tier):
    res = CheckResult(PID, tier)
    cfg = full(cfg)
    q = tier == "quick"
    with Scratch() as scratch:
        mod, cf = mcgen.write_mc(scratch, "Clockwork", cfg, name="MC_Clockwork", invariants=list(INVARIANTS))
        dot = os.path.join(scratch, "graph")
        r = tlc.run_tlc(mod, cf, workers=2, dump_dot=dot, java_opts=JOPTS, timeout=3000)
        _fix_coverage(r)
        res.add_tlc(f"R/{name}", r)
        if not r.ok:
            _tlc_violation(res, r, name, cfg)
            return res
        g = tlc.load_dot(dot + ".dot")
    world = CollectingWorld(cfg, f"R/{name}", cap=3000 if q else 30000)
    rp = rpl.Replayer(g, world)
    t0 = time.time()
    rp.all_paths(4 if q else 5, budget_s=60 if q else 300)  # budgets are safety nets: both finish early
    n_exh = rp.paths
    total_edges = sum(len(v) for v in g.edges.values())
    # the graph is acyclic in time: a cover walk gets stuck at the horizon, so restart it from a
    # fresh world until nothing new is covered
    t_cover = time.time()
    while len(rp.covered) < total_edges and time.time() - t_cover < (90 if q else 600):
        before = len(rp.covered)
        rp.greedy_cover(rp.steps + 100_000, rng(f"R{name}{rp.paths}"), budget_s=30 if q else 60, restart_every=10_000)
        if len(rp.covered) == before:
            break
    rp.random_walks(200 if q else 5000, 30, rng("Rw" + name))
    hist = world.histories()
    res.extra.setdefault("replay", []).append(
        {
            "model": name,
            "graph_states": len(g.states),
            "graph_edges": total_edges,
            "shapes": _shape_stats(g),
            "paths_exhaustive_depth": 4 if q else 5,
            "paths_exhaustive": n_exh,
            "paths_total": rp.paths,
            "steps_executed": rp.steps,
            "edge_cover_fraction": round(len(rp.covered) / max(1, total_edges), 4),
            "distinct_histories_recorded": len(hist),
            "divergence_keys": dict(rp.div_keys),
            "wall_s": round(time.time() - t0, 1),
        }
    )
    broken = check_histories(res, hist, f"replay:{name}", chunk=3000, par=False)
    _divergences(res, rp, name, broken, world)
    # a sample: shortest path to an invocation that emits a batch of size > 1
    prev = {g.init[0]: None}
    dq = collections.deque([g.init[0]])
    target = None
    while dq and target is None:
        n = dq.popleft()
        for lab, dst in g.edges[n]:
            if dst not in prev:
                prev[dst] = (n, lab)
                dq.append(dst)
                if any(b["b"] > 1 for b in g.states[dst]["out"]["batches"]):
                    target = dst
                    break
    if target is not None:
        path, n = [], target
        while prev[n] is not None:
            n, lab = prev[n][0], prev[n][1]
            path.append(lab)
        res.samples.append(
            {"kind": "replayed path (real answer == spec out)", "model": name, "path": path[::-1],
             "spec_out": _norm(g.states[target]["out"])}
        )
    return res


def _behaviour_graph(beh):
    states = {str(i): s for i, (_, s) in enumerate(beh)}
    edges = {str(i): [] for i in range(len(beh))}
    path = []
    for i in range(1, len(beh)):
        edges[str(i - 1)].append((beh[i][0], str(i)))
        path.append((str(i - 1), beh[i][0], str(i)))
    return tlc.Graph(states, edges, ["0"]), path


def _replay_sim_job(name, cfg, tier, num, depth, seed):
    res = CheckResult(PID, tier)
    cfg = full(cfg)
    with Scratch() as scratch:
        mod, cf = mcgen.write_mc(scratch, "Clockwork", cfg, name="MC_Clockwork", invariants=list(INVARIANTS))
        prefix = os.path.join(scratch, "beh")
        r = tlc.run_tlc(
            mod, cf, workers=1, simulate=f"file={prefix},num={num}", depth=depth, seed=seed, java_opts=JOPTS,
            timeout=3000, coverage=False,
        )
        if not r.ok:
            _tlc_violation(res, r, name, cfg)
            return res
        files = sorted(f for f in os.listdir(scratch) if f.startswith("beh"))
        behs = [tlc.load_behaviour(os.path.join(scratch, f)) for f in files]
    world = CollectingWorld(cfg, f"S/{name}", cap=100000)
    steps = paths = 0
    keys = collections.Counter()
    first = None
    shapes = collections.Counter()
    for beh in behs:
        if len(beh) < 2:
            continue
        g, path = _behaviour_graph(beh)
        rp = rpl.Replayer(g, world)
        rp.run_path(path)
        steps += rp.steps
        paths += 1
        keys.update(rp.div_keys)
        if rp.divergences and first is None:
            first = rp
        for k, v in _shape_stats(g).items():
            shapes[k] += v
    hist = world.histories()
    res.extra.setdefault("replay", []).append(
        {
            "model": name,
            "simulated_behaviours": paths,
            "depth": depth,
            "steps_executed": steps,
            "shapes": dict(shapes),
            "distinct_histories_recorded": len(hist),
            "divergence_keys": dict(keys),
        }
    )
    broken = check_histories(res, hist, f"simulate:{name}@{seed}", chunk=3000, par=False)
    if first is not None:
        first.div_keys = keys
        _divergences(res, first, name, broken, world)
    return res


def _load_shape_stats(g):
    c = collections.Counter()
    for s in g.states.values():
        o = s["out"]
        if o["at"] < 0:
            continue
        c["invocation_states"] += 1
        if o["loads"]:
            c["with_load"] += 1
        if o["evicts"]:
            c["with_eviction"] += 1
        if o["evicts"] and o["batches"]:
            c["eviction_and_batches"] += 1
        if any(b["w"] == e["w"] for b in o["batches"] for e in o["evicts"]):
            c["batch_on_evicting_worker"] += 1
        if len(o["evicts"]) > 1:
            c["several_evictions"] += 1
        if o["evicts"] and not o["loads"]:
            c["eviction_without_load"] += 1
    return dict(c)


def _load_graph_job(name, cfg, tier):
    """R for run_load: dump the graph of a small world (Invoke edges: one per answer that some priority
    order yields) and walk it on a real scheduler with run_load on, on an evolving real cluster."""
    res = CheckResult(PID, tier)
    cfg = full(cfg)
    q = tier == "quick"
    with Scratch() as scratch:
        mod, cf = mcgen.write_mc(scratch, "Clockwork", cfg, name="MC_Clockwork", invariants=list(INVARIANTS))
        dot = os.path.join(scratch, "graph")
        # (per-action coverage doubles TLC's cost: collected on the smallest world only)
        r = tlc.run_tlc(mod, cf, workers=2, dump_dot=dot, java_opts=JOPTS, timeout=3000, coverage=name.startswith("lr1"))
        _fix_coverage(r)
        res.add_tlc(f"R/{name}", r)
        if not r.ok:
            _tlc_violation(res, r, name, cfg)
            return res
        g = tlc.load_dot(dot + ".dot")
    world = CollectingWorld(cfg, f"R/{name}", cap=4000 if q else 40000)
    wk = NDWalker(g, world)
    t0 = time.time()
    depth = 5 if q else 6
    complete = wk.all_scripts(depth, budget_s=40 if q else 240)
    n_exh = wk.paths
    wk.walks(300 if q else 4000, 30, rng("Lw" + name), budget_s=30 if q else 240)
    hist = world.histories()
    nd_nodes = sum(1 for m in wk.moves.values() if len(m.get("Invoke", [])) > 1)
    inv_edges = sum(len(m.get("Invoke", [])) for m in wk.moves.values())
    res.extra.setdefault("replay", []).append(
        {
            "model": name,
            "run_load": True,
            "graph_states": len(g.states),
            "graph_moves": wk.total_moves(),
            "shapes": _load_shape_stats(g),
            "invoke_nodes_with_several_answers": nd_nodes,
            "scripts_exhaustive_depth": depth,
            "scripts_exhaustive_complete": bool(complete),
            "scripts_exhaustive": n_exh,
            "paths_total": wk.paths,
            "steps_executed": wk.steps,
            "move_cover_fraction": round(len(wk.covered) / max(1, wk.total_moves()), 4),
            "spec_answers_realised_by_code": f"{len(wk.realised)}/{inv_edges}",
            "invocations_by_number_of_spec_answers": {str(k): v for k, v in sorted(wk.nd_choices.items())},
            "distinct_histories_recorded": len(hist),
            "divergence_keys": dict(wk.div_keys),
            "wall_s": round(time.time() - t0, 1),
        }
    )
    broken = check_histories(res, hist, f"replay:{name}", chunk=3000, par=False)
    _divergences(res, wk, name, broken, world, crash_key=lambda d: f"crash|run_load|{sorted(d.fields)[0]}")
    for h in hist:
        if len(res.samples) < 1 and any(c["evicts"] and c["batches"] for c in h["calls"]):
            res.samples.append(
                {"kind": "replayed script with run_load (real answer is one of the spec's)", "model": name,
                 "script": h["script"], "calls": [c for c in h["calls"] if c["evicts"] or c["loads"] or c["batches"]][:3]}
            )
    return res


def _load_sim_job(name, cfg, tier, num, depth, seed):
    """TLC `-simulate` behaviours of a bigger run_load world as action scripts (arrival histories,
    deadlines, invocation instants) for the real scheduler; the recorded calls are judged by RecCheck."""
    res = CheckResult(PID, tier)
    cfg = full(cfg)
    # TLC's simulator computes every successor at each step: the priority orders are restricted to the
    # rotations of the model list, the same on every worker (the behaviours are used as scripts only)
    ms = sorted(cfg["Strats"])
    rots = ", ".join(tlaval.to_tla(ms[k:] + ms[:k]) for k in range(len(ms)))
    consts = dict(cfg, PrioChoices=mcgen.Raw(f"{{[w \\in W |-> p] : p \\in {{{rots}}}}}"))
    with Scratch() as scratch:
        mod, cf = mcgen.write_mc(scratch, "Clockwork", consts, name="MC_Clockwork", invariants=list(INVARIANTS))
        prefix = os.path.join(scratch, "beh")
        r = tlc.run_tlc(
            mod, cf, workers=1, simulate=f"file={prefix},num={num}", depth=depth, seed=seed, java_opts=JOPTS,
            timeout=3000, coverage=False,
        )
        if not r.ok:
            _tlc_violation(res, r, name, cfg)
            return res
        files = sorted(f for f in os.listdir(scratch) if f.startswith("beh"))
        behs = [tlc.load_behaviour(os.path.join(scratch, f)) for f in files]
    world = CollectingWorld(cfg, f"S/{name}", cap=100000)
    steps = scripts = crashed = 0
    spec_shapes = collections.Counter()
    for beh in behs:
        if len(beh) < 2:
            continue
        g, _ = _behaviour_graph(beh)
        for k, v in _load_shape_stats(g).items():
            spec_shapes[k] += v
        world.fresh()
        scripts += 1
        try:
            for label, _ in beh[1:]:
                nm, args = tlaval.split_call(label)
                world.apply(nm, args)
                steps += 1
        except Exception as ex:  # noqa
            crashed += 1
            if crashed <= 2:
                msg = f"{type(ex).__name__}: {ex}"
                res.violate(
                    _crash_clause(msg),
                    f"{name}: ClockworkScheduler (run_load) raised on a TLC-generated history: {msg}",
                    {"history": world.history(f"S/{name}/crash{crashed}")},
                    key=f"crash|run_load|{_crash_site(ex)}",
                )
    hist = world.histories()
    res.extra.setdefault("replay", []).append(
        {
            "model": name,
            "run_load": True,
            "simulated_behaviours_used_as_scripts": scripts,
            "depth": depth,
            "steps_executed": steps,
            "spec_shapes": dict(spec_shapes),
            "crashed": crashed,
            "distinct_histories_recorded": len(hist),
        }
    )
    check_histories(res, hist, f"simulate:{name}@{seed}", chunk=3000, par=False)
    return res


def jobs_R(tier):
    q = tier == "quick"
    jobs = []
    for wn, w in replay_worlds(tier).items():
        for goal in ("clockwork", "least_slack"):
            jobs.append((_replay_graph_job, (f"{wn}/{goal}", dict(w, Goal=goal), tier)))
    for sn, sw in simulate_worlds(tier).items():
        for goal in ("clockwork", "least_slack"):
            for k in range(1 if q else 4):
                jobs.append(
                    (_replay_sim_job, (f"{sn}/{goal}", dict(sw, Goal=goal), tier, 150 if q else 1000, 32, 1000 + k + 7919 * verif_seed()))
                )
    # run_load
    goals = ("clockwork", "least_slack")
    for i, (wn, w) in enumerate(load_replay_worlds(tier).items()):
        for goal in goals if not q else (goals[(i + verif_seed()) % 2],):
            jobs.append((_load_graph_job, (f"{wn}/{goal}", dict(w, Goal=goal), tier)))
    for i, (sn, sw) in enumerate(load_simulate_worlds(tier).items()):
        for goal in goals if not q else (goals[(i + 1 + verif_seed()) % 2],):
            for k in range(1 if q else 2):
                jobs.append(
                    (_load_sim_job, (f"{sn}/{goal}", dict(sw, Goal=goal), tier, 40 if q else 300, 32, 2000 + k + 7919 * verif_seed()))
                )
    return jobs


def jobs_T(tier):
    n, per = (1600, 400) if tier == "quick" else (40000, 2500)
    jobs = [(_t_job, (f"T{k}", per, tier)) for k in range(n // per)]
    n, per = (900, 300) if tier == "quick" else (30000, 2500)
    return jobs + [(_t_job, (f"TL{k}", per, tier, True)) for k in range(n // per)]


def _dispatch(fn, args):
    t0, c0 = time.time(), sum(os.times()[:4])
    res = fn(*args)
    # CPU seconds of the job and its TLC runs (the wall time depends on what else the machine is doing)
    res.extra.setdefault("job_cost", {})[f"{fn.__name__.strip('_')}:{args[0]}"] = {
        "cpu_s": round(sum(os.times()[:4]) - c0, 1),
        "wall_s": round(time.time() - t0, 1),
    }
    return res


def _aggregate(extra):
    """sum the per-job record-check and random-history entries"""
    rc = extra.get("record_check", {})
    agg = {}
    for label, d in sorted(rc.items()):
        a = agg.setdefault(label.split("@")[0], {})
        for k, v in d.items():
            if isinstance(v, dict):
                fa = a.setdefault(k, {})
                for kk, vv in v.items():
                    fa[kk] = fa.get(kk, 0) + vv
            else:
                a[k] = round(a.get(k, 0) + v, 1)
    extra["record_check"] = agg
    rh = {}
    for d in extra.get("random_histories", {}).values():
        for k, v in d.items():
            rh[k] = round(rh.get(k, 0) + v, 1)
    extra["random_histories"] = rh


# ---------------------------------------------------------------------------


def run(tier: str) -> CheckResult:
    res = CheckResult(PID, tier)
    res.assumptions = [
        "both modes: run_load off (the default; models resident from the start, loaded by the harness with "
        "WorkerPool.load_profile and a zero-time strategy, then a step) and --scheduler_run_load (the policy emits "
        "LOAD / EVICT itself on memory-tight workers; residents at the start are loaded the same way)",
        "run_load: model memory is a resource type of its own (RAM, id 'any'; execution strategies use GPU only), one "
        "loading strategy per model with load time >= 1, every model fits into the empty memory of every worker "
        "(run_load picks the loading strategy on an emptied copy of the worker and dereferences None otherwise); the "
        "priority order of run_load (floating-point demand arithmetic) is left free in the spec: the state machine "
        "holds for every order, the replay accepts any answer that some order yields",
        "one worker pool; strategies of a model have distinct batch sizes and runtimes >= 1; every request is its own "
        "one-task TaskGraph, offered in workload order",
        "the harness applies the returned placements at the invocation instant (scheduler runtime 0) the way "
        "Simulator does, in the order of the event types of one instant (TASK_CANCEL, EVICT_PROFILE, LOAD_PROFILE, "
        "TASK_PLACEMENT): Task.cancel; WorkerPool.evict_profile; WorkerPool.load_profile; Task.schedule, "
        "WorkerPool.place_task, Task.start; time passes with WorkerPool.step (batches run, pending models become "
        "available) / remove_task / Task.finish",
        "TLC explores Clockwork.tla exhaustively only for the constants in harness/c15.py (mc_worlds, load_mc_worlds)",
        "C15.batch_eq (exact agreement with the spec's answer) is stricter than the statement and never decides "
        "the verdict alone",
    ]
    global JOPTS
    if tier != "quick":  # long runs: let the JIT optimise fully
        JOPTS = mcgen.LIB_OPT + ["-XX:ParallelGCThreads=4", "-Xss16m"]
    ns()
    import schedulers  # noqa: F401  (imported before forking: the package pulls in every solver back-end)

    jobs = jobs_M(tier) + jobs_R(tier) + jobs_T(tier)  # longest first
    for part in parallel(_dispatch, jobs, procs=16 if tier == "quick" else 10):
        res.merge(part)
    _aggregate(res.extra)
    res.extra["clauses"] = PROPERTY_CLAUSES + ["C15.batch_eq"]
    res.extra["jobs"] = {"M": len(jobs_M(tier)), "R": len(jobs_R(tier)), "T": len(jobs_T(tier))}
    return res


def replay(d):
    """run.py --replay: re-run the stored action script on the real scheduler of the current
    repository and let TLC check the recorded calls again.  Returns 1 if a clause still fails."""
    det = d.get("detail", {})
    h = det.get("history")
    if not h or "script" not in h:
        return 0
    ns()
    wd = RealWorld(h["cfg"])
    wd.fresh()
    try:
        for a in h["script"]:
            wd.apply(a[0], a[1:])
    except Exception as ex:  # noqa
        print(f"the scheduler raised: {type(ex).__name__}: {ex}")
        return 1
    again = wd.history(h["id"])
    print("calls now:", json.dumps(again["calls"]))
    with Scratch() as scratch:
        bad, counts, _ = rec_check([again], scratch, "replay")
    for b in bad:
        print("still failing:", b)
    return 1 if bad else 0
