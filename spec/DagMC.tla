------------------------------- MODULE DagMC -------------------------------
(* The definitions of Dag.tla checked against each other on EVERY graph of a *)
(* small universe.  The state is a graph (edge set; self-loops and cycles    *)
(* included) with a weight vector; the actions add / remove an edge or       *)
(* change a weight, so the reachable states are all graphs on 1..MCN (with   *)
(* unit weights) and all acyclic ones with all weight vectors over 1..MCW.   *)
EXTENDS Dag

CONSTANTS MCN,      \* number of nodes of the universe
          MCW,      \* largest weight
          MCLoops,  \* BOOLEAN: self-loops <<a, a>> belong to the universe
          MCUpper   \* BOOLEAN: only edges <<a, b>> with a < b (every DAG up to renaming)

VARIABLES mcE, mcW
mcvars == <<mcE, mcW>>

Ones == [v \in Nodes(MCN) |-> 1]

MCInit == mcE = {} /\ mcW = Ones

\* Edges change on unit-weight states only, weights on acyclic graphs only: the
\* reachable states are every graph on 1..MCN with unit weights plus every
\* acyclic one with every weight vector.
AddEdge(a, b) ==
    /\ mcW = Ones
    /\ <<a, b>> \notin mcE
    /\ (a = b) => MCLoops
    /\ MCUpper => a < b
    /\ mcE' = mcE \cup {<<a, b>>}
    /\ UNCHANGED mcW
DelEdge(a, b) ==
    /\ mcW = Ones
    /\ <<a, b>> \in mcE
    /\ mcE' = mcE \ {<<a, b>>}
    /\ UNCHANGED mcW
SetWeight(v, k) ==
    /\ mcW[v] # k
    /\ mcW' = [mcW EXCEPT ![v] = k]
    /\ UNCHANGED mcE
Reweigh == IsDag(MCN, mcE) /\ \E v \in Nodes(MCN), k \in 1..MCW : SetWeight(v, k)
MCNext == (\E a, b \in Nodes(MCN) : AddEdge(a, b) \/ DelEdge(a, b)) \/ Reweigh
MCSpec == MCInit /\ [][MCNext]_mcvars

MCTypeOK == WellFormed(MCN, mcE) /\ mcW \in [Nodes(MCN) -> 1..MCW]

\* all duplicate-free sequences over the nodes (candidate orders / paths)
RECURSIVE InjSeqs(_)
InjSeqs(k) ==
    IF k = 0 THEN {<<>>}
    ELSE LET shorter == InjSeqs(k - 1)
         IN  shorter \cup
             UNION {{Append(s, v) : v \in Nodes(MCN) \ Range(s)} :
                    s \in {t \in shorter : Len(t) = k - 1}}
MCSeqs  == InjSeqs(MCN)
MCPerms == {s \in MCSeqs : Len(s) = MCN}
Acyclic == IsDag(MCN, mcE)
\* the invariants about the shape of the graph are evaluated once per edge set
\* (on the unit-weight state), the weight-dependent ones on every state
Shape == mcW = Ones

\* the fixpoint cycle test agrees with the defining one
MC_CycleDefsAgree == Shape => (HasCycle(MCN, mcE) <=> HasCycleDef(MCN, mcE))

\* a topological order exists exactly when the graph is acyclic, and Kahn finds one
MC_TopoIffDag ==
    Shape =>
    /\ (\E s \in MCPerms : TopoOK(MCN, mcE, s)) <=> Acyclic
    /\ Acyclic <=> Len(CanonTopo(MCN, mcE)) = MCN
    /\ Acyclic => TopoOK(MCN, mcE, CanonTopo(MCN, mcE))

\* parents-first iteration orders are exactly the topological orders
MC_BfsIsTopo == Shape => \A s \in MCPerms : BfsOK(MCN, mcE, s) <=> TopoOK(MCN, mcE, s)

\* depth: table = recursion over parents = length of the longest chain ending in
\* the node; sources are exactly the nodes of depth 1; a node reachable from
\* another one is strictly deeper
Chain(q) == \A i \in 1..(Len(q) - 1) : <<q[i], q[i + 1]>> \in mcE
MC_Depth ==
    (Shape /\ Acyclic) =>
        LET t == DepthTable(MCN, mcE)
        IN  /\ DOMAIN t = Nodes(MCN)
            /\ \A v \in Nodes(MCN) :
                  /\ t[v] = DepthDef(mcE, v)
                  /\ t[v] = Depth(MCN, mcE, v)
                  /\ (t[v] = 1 <=> v \in Sources(MCN, mcE))
                  /\ \A u \in Reach(mcE, v) : t[u] > t[v]
                  /\ t[v] = Max0({Len(q) : q \in {r \in MCSeqs :
                                     Len(r) >= 1 /\ r[Len(r)] = v /\ Chain(r)}})

\* dependence is symmetric, irreflexive on DAGs, and never holds on equal depth
MC_Dependent ==
    (Shape /\ Acyclic) =>
        \A a, b \in Nodes(MCN) :
            /\ Dependent(mcE, a, b) <=> Dependent(mcE, b, a)
            /\ Dependent(mcE, a, b) => Depth(MCN, mcE, a) # Depth(MCN, mcE, b)
            /\ ~Dependent(mcE, a, a)

\* path enumeration = polynomial path predicate
MC_Paths ==
    (Shape /\ Acyclic) =>
        /\ Paths(MCN, mcE) = {p \in MCSeqs : IsSrcSinkPath(MCN, mcE, p)}
        /\ Paths(MCN, mcE) # {}

\* both longest-weight definitions agree; a longest path exists; both acceptance
\* predicates accept the same sequences; the heaviest chain ends in a sink
MC_LongestAgree ==
    Acyclic =>
        LET lwDef == LongestWeightDef(MCN, mcE, mcW)
            lw    == LongestWeight(MCN, mcE, mcW)
            tbl   == LWTable(MCN, mcE, mcW)
            paths == Paths(MCN, mcE)
        IN  /\ lwDef = lw
            /\ \E p \in paths : Wt(mcW, p) = lwDef
            /\ \A p \in paths :
                  /\ LongestPathOK(MCN, mcE, mcW, p) <=> Wt(mcW, p) = lwDef
                  /\ LongestPathOKDef(MCN, mcE, mcW, p) <=> Wt(mcW, p) = lw
            /\ \A p \in MCSeqs \ paths :
                  ~IsSrcSinkPath(MCN, mcE, p) /\ ~LongestPathOKDef(MCN, mcE, mcW, p)
            /\ lw = Max0({tbl[v] : v \in Nodes(MCN)})

\* depth-first acceptance: for every start some enumeration is accepted, every
\* accepted one contains the start, and repeating or dropping a node is rejected;
\* sources / sinks are never empty on a DAG and everything is below the sources
MC_Traversals ==
    (Shape /\ Acyclic) =>
        /\ \A a \in Nodes(MCN) :
              /\ \E s \in MCSeqs : DfsOK(mcE, a, s)
              /\ \A s \in MCSeqs : DfsOK(mcE, a, s) =>
                    /\ a \in Range(s)
                    /\ ~DfsOK(mcE, a, Append(s, s[Len(s)]))
                    /\ ~DfsOK(mcE, a, Tail(s))
              /\ ReachStar(mcE, a) = {a} \cup Reach(mcE, a)
        /\ Sources(MCN, mcE) # {} /\ Sinks(MCN, mcE) # {}
        /\ Closure(mcE, Sources(MCN, mcE)) = Nodes(MCN)
        /\ \A s \in MCPerms : DfsAllOK(MCN, mcE, s)
=============================================================================
