#!/venv/bin/python
"""Single entry point of the verification machinery.

    /venv/bin/python run.py --property C04 --tier quick|thorough
    /venv/bin/python run.py --setup            (syntax-check every spec module)
    /venv/bin/python run.py --replay <path>    (print a stored counterexample)

Exit 0: the property held on everything explored (KNOWN-FINDING lines allowed).
Exit 1: VIOLATION line(s) printed.  Exit 2: machinery failure.
"""
import argparse
import importlib
import json
import os
import signal
import sys
import traceback

HERE = os.path.dirname(os.path.abspath(__file__))
sys.path.insert(0, HERE)
os.environ.setdefault("PYTHONHASHSEED", "0")


def _terminated(signum, frame):
    # a killed check is a machinery failure, never a verdict; unwinding lets scratch directories and TLC children go
    raise SystemExit(2)


def main():
    signal.signal(signal.SIGTERM, _terminated)
    ap = argparse.ArgumentParser()
    ap.add_argument("--property")
    ap.add_argument("--tier", default=None)
    ap.add_argument("--setup", action="store_true")
    ap.add_argument("--replay")
    args = ap.parse_args()

    from harness import common

    if args.setup:
        from harness import tlc

        bad = 0
        for fn in sorted(os.listdir(tlc.SPEC_DIR)):
            if fn.endswith(".tla"):
                ok, out = tlc.sany(os.path.join(tlc.SPEC_DIR, fn))
                print(("ok   " if ok else "FAIL ") + fn)
                if not ok:
                    bad += 1
                    print(out[-1500:])
        return 2 if bad else 0
    if args.replay:
        with open(args.replay) as f:
            d = json.load(f)
        print(json.dumps(d, indent=1)[:20000])
        mod = importlib.import_module(f"harness.{d['property'].lower()}")
        if hasattr(mod, "replay"):
            return mod.replay(d)
        return 0
    if not args.property:
        ap.error("--property required")
    tier = args.tier or common.tier_from_env()
    pid = args.property.upper()
    try:
        mod = importlib.import_module(f"harness.{pid.lower()}")
        res = mod.run(tier)
        return common.finish(res)
    except Exception:
        traceback.print_exc()
        print(f"MACHINERY-FAILURE property={pid}")
        return 2


if __name__ == "__main__":
    sys.exit(main())
