------------------------------- MODULE DagMC -------------------------------
(* The definitions of Dag.tla checked against each other on EVERY graph of a *)
(* small universe.  The state is a graph (edge set; self-loops and cycles    *)
(* included) with a weight vector; the actions add / remove an edge or       *)
(* change a weight, so the reachable states are all graphs on 1..MCN (with   *)
(* unit weights) and all acyclic ones with all weight vectors over 1..MCW.   *)
(*                                                                           *)
(* Second specification (ObjSpec): the graph OBJECT of Dag.tla as a state     *)
(* machine -- node set mcV, edge set mcE, the public mutators add_node /      *)
(* add_child / remove as actions, mcLast = the mutator call that produced the *)
(* state.  TLC checks that the machine stays a graph and that renaming a      *)
(* shrunken node set to 1..|V| commutes with the definitions; its dumped      *)
(* state graph is the generator of the mutate / query walks that the harness  *)
(* replays on real objects (every query judged by DagTrace at its version).   *)
EXTENDS Dag

CONSTANTS MCN,      \* number of nodes of the universe
          MCW,      \* largest weight
          MCLoops,  \* BOOLEAN: self-loops <<a, a>> belong to the universe
          MCUpper   \* BOOLEAN: only edges <<a, b>> with a < b (every DAG up to renaming)

VARIABLES mcE, mcW,
          mcV,      \* ObjSpec: the current node set (MCSpec: always 1..MCN)
          mcLast    \* ObjSpec: the mutator call that led here (MCSpec: <<>>)
mcvars == <<mcE, mcW, mcV, mcLast>>

Ones == [v \in Nodes(MCN) |-> 1]

MCInit == mcE = {} /\ mcW = Ones /\ mcV = Nodes(MCN) /\ mcLast = <<>>

\* Edges change on unit-weight states only, weights on acyclic graphs only: the
\* reachable states are every graph on 1..MCN with unit weights plus every
\* acyclic one with every weight vector.
AddEdge(a, b) ==
    /\ mcW = Ones
    /\ <<a, b>> \notin mcE
    /\ (a = b) => MCLoops
    /\ MCUpper => a < b
    /\ mcE' = mcE \cup {<<a, b>>}
    /\ UNCHANGED <<mcW, mcV, mcLast>>
DelEdge(a, b) ==
    /\ mcW = Ones
    /\ <<a, b>> \in mcE
    /\ mcE' = mcE \ {<<a, b>>}
    /\ UNCHANGED <<mcW, mcV, mcLast>>
SetWeight(v, k) ==
    /\ mcW[v] # k
    /\ mcW' = [mcW EXCEPT ![v] = k]
    /\ UNCHANGED <<mcE, mcV, mcLast>>
Reweigh == IsDag(MCN, mcE) /\ \E v \in Nodes(MCN), k \in 1..MCW : SetWeight(v, k)
MCNext == (\E a, b \in Nodes(MCN) : AddEdge(a, b) \/ DelEdge(a, b)) \/ Reweigh
MCSpec == MCInit /\ [][MCNext]_mcvars

MCTypeOK == WellFormed(MCN, mcE) /\ mcW \in [Nodes(MCN) -> 1..MCW]

\* all duplicate-free sequences over the nodes (candidate orders / paths)
RECURSIVE InjSeqs(_)
InjSeqs(k) ==
    IF k = 0 THEN {<<>>}
    ELSE LET shorter == InjSeqs(k - 1)
         IN  shorter \cup
             UNION {{Append(s, v) : v \in Nodes(MCN) \ Range(s)} :
                    s \in {t \in shorter : Len(t) = k - 1}}
MCSeqs  == InjSeqs(MCN)
MCPerms == {s \in MCSeqs : Len(s) = MCN}
Acyclic == IsDag(MCN, mcE)
\* the invariants about the shape of the graph are evaluated once per edge set
\* (on the unit-weight state), the weight-dependent ones on every state
Shape == mcW = Ones

\* the fixpoint cycle test agrees with the defining one
MC_CycleDefsAgree == Shape => (HasCycle(MCN, mcE) <=> HasCycleDef(MCN, mcE))

\* a topological order exists exactly when the graph is acyclic, and Kahn finds one
MC_TopoIffDag ==
    Shape =>
    /\ (\E s \in MCPerms : TopoOK(MCN, mcE, s)) <=> Acyclic
    /\ Acyclic <=> Len(CanonTopo(MCN, mcE)) = MCN
    /\ Acyclic => TopoOK(MCN, mcE, CanonTopo(MCN, mcE))

\* parents-first iteration orders are exactly the topological orders
MC_BfsIsTopo == Shape => \A s \in MCPerms : BfsOK(MCN, mcE, s) <=> TopoOK(MCN, mcE, s)

\* depth: table = recursion over parents = length of the longest chain ending in
\* the node; sources are exactly the nodes of depth 1; a node reachable from
\* another one is strictly deeper
Chain(q) == \A i \in 1..(Len(q) - 1) : <<q[i], q[i + 1]>> \in mcE
MC_Depth ==
    (Shape /\ Acyclic) =>
        LET t == DepthTable(MCN, mcE)
            tmin == MinDepthTable(MCN, mcE)
            \* chains that start at a source and end in v
            FromSource(v) == {r \in MCSeqs : Len(r) >= 1 /\ r[Len(r)] = v /\ Chain(r)
                                              /\ r[1] \in Sources(MCN, mcE)}
        IN  /\ DOMAIN t = Nodes(MCN)
            /\ DOMAIN tmin = Nodes(MCN)
            \* func=min: table = recursion over parents = number of nodes of the
            \* shortest chain from a source; never above the (max) depth, equal to it
            \* when all chains from sources to the node have one length
            /\ \A v \in Nodes(MCN) :
                  /\ tmin[v] = MinDepthDef(mcE, v)
                  /\ tmin[v] = MinDepth(MCN, mcE, v)
                  /\ tmin[v] = MinOf({Len(q) : q \in FromSource(v)})
                  /\ t[v] = Max0({Len(q) : q \in FromSource(v)})
                  /\ tmin[v] <= t[v]
                  /\ (tmin[v] = 1 <=> v \in Sources(MCN, mcE))
                  /\ \A p \in Pred(mcE, v) : tmin[v] <= tmin[p] + 1
            /\ \A v \in Nodes(MCN) :
                  /\ t[v] = DepthDef(mcE, v)
                  /\ t[v] = Depth(MCN, mcE, v)
                  /\ (t[v] = 1 <=> v \in Sources(MCN, mcE))
                  /\ \A u \in Reach(mcE, v) : t[u] > t[v]
                  /\ t[v] = Max0({Len(q) : q \in {r \in MCSeqs :
                                     Len(r) >= 1 /\ r[Len(r)] = v /\ Chain(r)}})

\* dependence is symmetric, irreflexive on DAGs, and never holds on equal depth
MC_Dependent ==
    (Shape /\ Acyclic) =>
        \A a, b \in Nodes(MCN) :
            /\ Dependent(mcE, a, b) <=> Dependent(mcE, b, a)
            /\ Dependent(mcE, a, b) => Depth(MCN, mcE, a) # Depth(MCN, mcE, b)
            /\ ~Dependent(mcE, a, a)

\* path enumeration = polynomial path predicate
MC_Paths ==
    (Shape /\ Acyclic) =>
        /\ Paths(MCN, mcE) = {p \in MCSeqs : IsSrcSinkPath(MCN, mcE, p)}
        /\ Paths(MCN, mcE) # {}

\* both longest-weight definitions agree; a longest path exists; both acceptance
\* predicates accept the same sequences; the heaviest chain ends in a sink
MC_LongestAgree ==
    Acyclic =>
        LET lwDef == LongestWeightDef(MCN, mcE, mcW)
            lw    == LongestWeight(MCN, mcE, mcW)
            tbl   == LWTable(MCN, mcE, mcW)
            paths == Paths(MCN, mcE)
        IN  /\ lwDef = lw
            /\ \E p \in paths : Wt(mcW, p) = lwDef
            /\ \A p \in paths :
                  /\ LongestPathOK(MCN, mcE, mcW, p) <=> Wt(mcW, p) = lwDef
                  /\ LongestPathOKDef(MCN, mcE, mcW, p) <=> Wt(mcW, p) = lw
            /\ \A p \in MCSeqs \ paths :
                  ~IsSrcSinkPath(MCN, mcE, p) /\ ~LongestPathOKDef(MCN, mcE, mcW, p)
            /\ lw = Max0({tbl[v] : v \in Nodes(MCN)})

\* depth-first acceptance: for every start some enumeration is accepted, every
\* accepted one contains the start, and repeating or dropping a node is rejected;
\* sources / sinks are never empty on a DAG and everything is below the sources
MC_Traversals ==
    (Shape /\ Acyclic) =>
        /\ \A a \in Nodes(MCN) :
              /\ \E s \in MCSeqs : DfsOK(mcE, a, s)
              /\ \A s \in MCSeqs : DfsOK(mcE, a, s) =>
                    /\ a \in Range(s)
                    /\ ~DfsOK(mcE, a, Append(s, s[Len(s)]))
                    /\ ~DfsOK(mcE, a, Tail(s))
              /\ ReachStar(mcE, a) = {a} \cup Reach(mcE, a)
        /\ Sources(MCN, mcE) # {} /\ Sinks(MCN, mcE) # {}
        /\ Closure(mcE, Sources(MCN, mcE)) = Nodes(MCN)
        /\ \A s \in MCPerms : DfsAllOK(MCN, mcE, s)

-----------------------------------------------------------------------------
(* ObjSpec: the mutable graph object *)

ObjG == [V |-> mcV, E |-> mcE]
ObjInit == mcV = {} /\ mcE = {} /\ mcW = Ones /\ mcLast = <<>>
ObjSet(G, call) == mcV' = G.V /\ mcE' = G.E /\ mcLast' = call /\ UNCHANGED mcW

ObjAddNode(v) == ObjSet(AddNodeG(ObjG, v), <<"add_node", v, 0>>)
ObjAddChild(a, c) ==
    /\ (a = c) => MCLoops
    /\ CanAddChild(ObjG, a, c)
    /\ ObjSet(AddChildG(ObjG, a, c), <<"add_child", a, c>>)
ObjRemove(v) == CanRemove(ObjG, v) /\ ObjSet(RemoveG(ObjG, v), <<"remove", v, 0>>)
ObjNext == \/ \E a \in Nodes(MCN) : ObjAddNode(a) \/ ObjRemove(a)
           \/ \E a, c \in Nodes(MCN) : ObjAddChild(a, c)
ObjSpec == ObjInit /\ [][ObjNext]_mcvars

ObjTypeOK == mcV \subseteq Nodes(MCN) /\ WellFormedG(ObjG) /\ mcW = Ones

\* the call recorded in mcLast explains the state: what it added is there, what it
\* removed is gone
Obj_LastExplains ==
    \/ mcLast = <<>> /\ mcV = {} /\ mcE = {}
    \/ mcLast[1] = "add_node" /\ mcLast[2] \in mcV
    \/ mcLast[1] = "add_child" /\ <<mcLast[2], mcLast[3]>> \in mcE
    \/ mcLast[1] = "remove" /\ mcLast[2] \notin mcV

\* Renaming the node set to 1..|V| by rank is a graph isomorphism, and the notions
\* that are defined without reference to 1..n commute with it.  (This is what
\* allows DagTrace to judge queries asked after a removal with the definitions
\* written for node sets 1..n.)
Obj_CompactFaithful ==
    LET V  == mcV
        k  == Cardinality(V)
        E2 == CompactE(ObjG)
        R(S) == {Rank(V, x) : x \in S}
    IN  /\ WellFormed(k, E2)
        /\ R(V) = Nodes(k)
        /\ \A v \in V : Unrank(V, Rank(V, v)) = v
        /\ \A v \in Nodes(MCN) \ V : Rank(V, v) = 0
        /\ \A a, b \in V : a < b <=> Rank(V, a) < Rank(V, b)
        /\ Cardinality(E2) = Cardinality(mcE)
        /\ \A a, b \in V : <<a, b>> \in mcE <=> <<Rank(V, a), Rank(V, b)>> \in E2
        /\ IsCompact(V) => E2 = mcE
        /\ \A v \in V :
              /\ R(Reach(mcE, v)) = Reach(E2, Rank(V, v))
              /\ R(Pred(mcE, v)) = Pred(E2, Rank(V, v))
              /\ R(Succ(mcE, v)) = Succ(E2, Rank(V, v))
        /\ R({v \in V : Pred(mcE, v) = {}}) = Sources(k, E2)
        /\ R({v \in V : Succ(mcE, v) = {}}) = Sinks(k, E2)
        /\ HasCycle(k, E2) <=> (\E S \in SUBSET V : S # {} /\ \A a \in S : Succ(mcE, a) \cap S # {})
        /\ IsDag(k, E2) =>
              \A v \in V : /\ DepthDef(mcE, v) = Depth(k, E2, Rank(V, v))
                            /\ MinDepthDef(mcE, v) = MinDepth(k, E2, Rank(V, v))

\* what a mutator may and may not change
Obj_Mutators ==
    \A a, c \in Nodes(MCN) :
        /\ AddNodeG(ObjG, a).E = mcE
        /\ a \in mcV => AddNodeG(ObjG, a) = ObjG
        /\ CanAddChild(ObjG, a, c) =>
              LET H == AddChildG(ObjG, a, c)
              IN  /\ WellFormedG(H) /\ H.E \ mcE = {<<a, c>>} /\ H.V \ mcV \subseteq {c}
                  /\ c \in Reach(H.E, a)
        /\ CanRemove(ObjG, a) =>
              LET H == RemoveG(ObjG, a)
              IN  /\ WellFormedG(H) /\ H.V = mcV \ {a}
                  /\ H.E = {e \in mcE : e[1] # a /\ e[2] # a}
                  /\ \A v \in H.V : Reach(H.E, v) = Reach(mcE, v)
        \* removing a node that has a parent would leave a dangling edge
        /\ (a \in mcV /\ Pred(mcE, a) \ {a} # {}) => ~WellFormedG(RemoveG(ObjG, a))
=============================================================================
