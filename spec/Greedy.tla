------------------------------- MODULE Greedy -------------------------------
(* C13 - the greedy policies (schedulers/edf_scheduler.py, fifo_scheduler.py,  *)
(* lsf_scheduler.py) as a function from one *instance* to one *answer*.        *)
(*                                                                            *)
(* instance  [now, preemptive, tasks, pools]                                  *)
(*   tasks : sequence, in OFFER order (what Workload.get_schedulable_tasks     *)
(*           returns: RELEASED tasks with release <= now and PREEMPTED tasks,  *)
(*           task graphs in dict order, so the tasks of one graph are          *)
(*           contiguous; for a preemptive policy followed by the tasks that    *)
(*           are RUNNING on the pools, in pool order), of                      *)
(*           [deadline, release, graph, strats, ran] with                     *)
(*           strats : sequence of [dem, rt]; dem is a vector of quantities,    *)
(*           one per resource name (0 = not requested), rt the runtime;        *)
(*           graph : a number standing for the task-graph name (the harness    *)
(*           names graphs so that string order = numeric order);               *)
(*           ran = [s, done, on] : the task was started with strategy s        *)
(*           (0 = never started), has executed for `done`, and is still        *)
(*           RUNNING on pool `on` (0 = it is RELEASED, or was PREEMPTED)       *)
(*   preemptive : the policy was built with preemptive = True: it plans on a   *)
(*           deepcopy of the pools (every allocation undone) and is also       *)
(*           offered the running tasks                                        *)
(*   pools : sequence of [cap, av]; cap/av : sequence (one per worker, dict    *)
(*           order) of vectors; av = what is free now (the pool is partially   *)
(*           occupied).  A Placement names the pool, not the worker: on a      *)
(*           pool with several workers NoInversion quantifies over the         *)
(*           assignments of the placed tasks to workers (RoomUnderAll).        *)
(* answer    [order, place]                                                   *)
(*   order : the task indices in the order their Placements were returned     *)
(*   place : per task (offer index) [placed, pool, strat]; a task without a   *)
(*           Placement counts as not placed.                                  *)
(*                                                                            *)
(* Plan(kind, inst)       what the algorithm returns (stable sort by the key,  *)
(*                        first fit strategies x pools on a virtual cluster)  *)
(* CodedPlan(kind, inst)  the same with LSF's strategy-less virtual place_task *)
(* NoInversion(k, i, a)   the property statement, with a fit check that does   *)
(*                        not use the virtual cluster of Plan                 *)
(* SameAsPlan, OrderKey, Feasible: stricter than / beside the statement        *)
(* (reported as spec.resync notes by the harness, never as a violation).      *)
(* The module is used in two ways: EnumInit enumerates every instance of the  *)
(* bound given by the constants (Theorem: Plan has no inversion; CodedIsPlan), *)
(* RecInit walks over call records [id, kind, inst, ans, ...] made on the     *)
(* real schedulers (RecChecked prints every failing clause of every record).  *)
(* All times of an instance are microseconds.  The *realisation* of a record  *)
(* (r.real: the EventTime unit - US / MS / S - in which every single time of  *)
(* the real objects is expressed, and the resource instances over which a     *)
(* worker's quantity of one resource name is split) is not part of the        *)
(* instance: the policies must not depend on it.  RealisationOK ties what is  *)
(* read back from the real objects to the instance, BlindKeys / UnitStats     *)
(* count the records on which a policy that forgets the unit would differ.    *)
EXTENDS Integers, Sequences, FiniteSets, TLC, LedgerOps

CONSTANTS Kinds,        \* subset of {"EDF", "FIFO", "LSF"}
          Now,          \* the scheduler's invocation time in the bound
          MaxTasks,     \* 1..MaxTasks tasks per instance
          Preemptive,   \* BOOLEAN: the instances of the bound are given to a preemptive policy
          Shapes,       \* sequence of task shapes [deadline, release, graph, strats, ran]
          PoolSeqs,     \* sequence of pool sequences (Preemptive: av = cap, see PoolsFor)
          NShapes, NPools, GraphOf, OnOf,   \* Len(Shapes), Len(PoolSeqs), graph / ran.on of each shape (see BoundOK)
          FirstIx,      \* the part of the bound a run enumerates: shape indices of the first task
          Records,      \* sequence of call records (<<>> in enumeration runs)
          NRecords      \* Len(Records)

\* A state is the *code* of an instance (shape index per task, index of the pool
\* sequence) or the index of a call record; the instance / record itself is looked
\* up in the invariants, so the initial predicates only mention small constants.
VARIABLES idx, kind, sel, pix
vars == <<idx, kind, sel, pix>>

\* TLC evaluates a definition without parameters once, but a constant that the
\* configuration substitutes at every reference: the big ones are used through these.
TheShapes   == Shapes
ThePoolSeqs == PoolSeqs
TheRecords  == Records

-----------------------------------------------------------------------------
(* resource vectors *)
\* TLC keeps [x \in S |-> e] symbolic and re-evaluates e at every application;
\* concatenating with <<>> turns it into an explicit tuple (same value).
Tup(f) == f \o <<>>

VFits(av, dem) == \A k \in 1..Len(dem) : av[k] >= dem[k]
VSub(av, dem)  == Tup([k \in 1..Len(av) |-> av[k] - dem[k]])
\* sum of d[u] over u \in S, as a vector of length n
VSum(S, d, n)  == Tup([k \in 1..n |-> SumSet([u \in S |-> d[u][k]], S)])

\* The vector model is LedgerOps' ledger of a worker that has one instance per
\* resource name, asked with wildcard ('any') requests: pointwise >= is the
\* code's admission test (Resources.__gt__ = FitsEach), it is also the true
\* all-or-nothing test, and allocation is pointwise subtraction.
LInsts(names, cap) == [k \in 1..Len(names) |-> [name |-> names[k], id |-> "i", cap |-> cap[k]]]
LDem(names, dem) ==
    SelectSeq([k \in 1..Len(names) |-> [name |-> names[k], id |-> "any", q |-> dem[k]]],
              LAMBDA e : e.q > 0)
VectorModelOK(names, maxq) ==
    \A av, dem \in [1..Len(names) -> 0..maxq] :
        LET insts == LInsts(names, av)
            L     == EmptyLedger(insts, {"x"})
            d     == LDem(names, dem)
        IN  /\ VFits(av, dem) <=> FitsEach(insts, L, d)
            /\ VFits(av, dem) <=> CanAllocMulti(insts, L, d)
            /\ VFits(av, dem) => MultiAlloc(insts, L, d, "x", 1).av = VSub(av, dem)

\* The same for a worker that lists a resource name under two ids (instances "a"
\* and "b" holding x[k] and av[k] - x[k]): with wildcard requests only the sum per
\* name matters, before and after an allocation (first fit across the instances).
SplitInsts(names, av, x) ==
    [j \in 1..(2 * Len(names)) |->
        LET k == (j + 1) \div 2
        IN  [name |-> names[k], id |-> IF j % 2 = 1 THEN "a" ELSE "b",
             cap |-> IF j % 2 = 1 THEN x[k] ELSE av[k] - x[k]]]
VectorModelSplitOK(names, maxq) ==
    \A av, dem, x \in [1..Len(names) -> 0..maxq] :
        (\A k \in 1..Len(names) : x[k] <= av[k]) =>
            LET insts == SplitInsts(names, av, x)
                L     == EmptyLedger(insts, {"x"})
                d     == LDem(names, dem)
                any   == [k \in 1..Len(names) |-> [name |-> names[k], id |-> "any", q |-> 0]]
            IN  /\ \A k \in 1..Len(names) : AvailQ(insts, L.av, any[k]) = av[k]
                /\ VFits(av, dem) <=> FitsEach(insts, L, d)
                /\ VFits(av, dem) <=> CanAllocMulti(insts, L, d)
                /\ VFits(av, dem) =>
                      LET M == MultiAlloc(insts, L, d, "x", 1)
                      IN  \A k \in 1..Len(names) : AvailQ(insts, M.av, any[k]) = av[k] - dem[k]

-----------------------------------------------------------------------------
(* instances *)
TaskIds(I)  == 1..Len(I.tasks)
PoolIds(I)  == 1..Len(I.pools)
NRes(I)     == Len(I.pools[1].av[1])
Dem(I, t, s) == I.tasks[t].strats[s].dem

\* ons[i] = pool on which the i-th offered task is running (0: it is not)
RunningLast(ons) == \A i, j \in 1..Len(ons) : (i < j /\ ons[i] > 0) => ons[j] >= ons[i]

\* what the running tasks of `ts` hold on pool p
RunningDem(ts, p, n) ==
    LET S == {t \in 1..Len(ts) : ts[t].ran.on = p}
    IN  VSum(S, [t \in S |-> ts[t].strats[ts[t].ran.s].dem], n)

WellFormedInst(I) ==
    /\ Len(I.tasks) >= 1 /\ Len(I.pools) >= 1
    /\ \A p \in PoolIds(I) :
          /\ Len(I.pools[p].av) >= 1 /\ Len(I.pools[p].cap) = Len(I.pools[p].av)
          /\ \A w \in 1..Len(I.pools[p].av) :
                /\ Len(I.pools[p].av[w]) = NRes(I) /\ Len(I.pools[p].cap[w]) = NRes(I)
                /\ \A k \in 1..NRes(I) : 0 <= I.pools[p].av[w][k] /\ I.pools[p].av[w][k] <= I.pools[p].cap[w][k]
    /\ \A t \in TaskIds(I) :
          /\ I.tasks[t].release <= I.now /\ I.tasks[t].release >= 0 /\ I.tasks[t].deadline >= 0
          /\ Len(I.tasks[t].strats) >= 1
          /\ \A s \in 1..Len(I.tasks[t].strats) :
                /\ Len(Dem(I, t, s)) = NRes(I) /\ I.tasks[t].strats[s].rt >= 1
                /\ \A k \in 1..NRes(I) : Dem(I, t, s)[k] >= 0
          /\ LET r == I.tasks[t].ran
             IN  IF r.s = 0 THEN r.done = 0 /\ r.on = 0
                 ELSE /\ r.s \in 1..Len(I.tasks[t].strats)
                      /\ 0 <= r.done /\ r.done < I.tasks[t].strats[r.s].rt    \* not finished
                      /\ I.tasks[t].release + r.done <= I.now
                      \* a RUNNING task is only offered to a preemptive policy
                      /\ r.on # 0 => (I.preemptive /\ r.on \in PoolIds(I) /\ Len(I.pools[r.on].av) = 1)
    \* tasks of one graph are offered together; the running ones come last, in pool order
    /\ \A i, j, k \in TaskIds(I) :
          (/\ i < j /\ j < k /\ I.tasks[i].graph = I.tasks[k].graph
           /\ I.tasks[i].ran.on = 0 /\ I.tasks[j].ran.on = 0 /\ I.tasks[k].ran.on = 0)
          => I.tasks[j].graph = I.tasks[i].graph
    /\ RunningLast([t \in TaskIds(I) |-> I.tasks[t].ran.on])
    \* a preemptive instance has no occupants other than its running tasks, and one task
    \* graph (get_schedulable_tasks appends the placed tasks once per task graph)
    /\ I.preemptive =>
          /\ \A t, u \in TaskIds(I) : I.tasks[t].graph = I.tasks[u].graph
          /\ \A p \in PoolIds(I) : Len(I.pools[p].av) = 1 /\ I.pools[p].av[1] = VSub(I.pools[p].cap[1], RunningDem(I.tasks, p, NRes(I)))

SingleWorkerPools(I) == \A p \in PoolIds(I) : Len(I.pools[p].av) = 1

-----------------------------------------------------------------------------
(* the policy keys; smaller = more urgent.  Python's sorted() is stable, so  *)
(* equal keys keep the offer order.                                           *)
\* Task.remaining_time: a task that never started (VIRTUAL / RELEASED) is budgeted
\* with the runtime of its slowest strategy; once scheduled and started it is the
\* runtime of the strategy it was placed with minus what it has executed.
Remaining(task) ==
    IF task.ran.s = 0
    THEN LET R == {task.strats[s].rt : s \in 1..Len(task.strats)}
         IN  CHOOSE m \in R : \A x \in R : x <= m
    ELSE task.strats[task.ran.s].rt - task.ran.done

Key(k, I, t) ==
    LET tk == I.tasks[t]
    IN  CASE k = "EDF"  -> <<tk.deadline, tk.graph>>     \* (deadline, task-graph name)
          [] k = "FIFO" -> <<tk.release, 0>>
          [] k = "LSF"  -> <<tk.deadline - I.now - Remaining(tk), 0>>

\* the keys of all tasks, as a tuple (the operators below take it as `K`)
Keys(k, I) == Tup([t \in TaskIds(I) |-> Key(k, I, t)])
\* The *priority* of the property statement: earliest deadline / earliest release /
\* least slack.  EDF's secondary sort key (the graph name) is a tie-break of the
\* algorithm, not a priority: tasks with equal deadlines have equal priority.
Prios(k, I) == Tup([t \in TaskIds(I) |-> <<Key(k, I, t)[1], 0>>])

KLess(a, b) == a[1] < b[1] \/ (a[1] = b[1] /\ a[2] < b[2])
\* u is at least as urgent as t
HiEq(K, u, t) == ~KLess(K[t], K[u])

Before(K, u, t) == KLess(K[u], K[t]) \/ (K[u] = K[t] /\ u < t)

\* stable sort of 1..n by K
OrderOf(K) ==
    LET n   == Len(K)
        pos == Tup([t \in 1..n |-> Cardinality({u \in 1..n : Before(K, u, t)}) + 1])
    IN  Tup([i \in 1..n |-> CHOOSE t \in 1..n : pos[t] = i])

Order(k, I) == OrderOf(Keys(k, I))

-----------------------------------------------------------------------------
(* first fit on the virtual cluster *)
Unplaced     == [placed |-> FALSE, pool |-> 0, strat |-> 0]
Placed(p, s) == [placed |-> TRUE, pool |-> p, strat |-> s]

\* WorkerPool.can_accomodate_strategy: some worker accommodates it
PoolFits(pav, dem) == \E w \in 1..Len(pav) : VFits(pav[w], dem)

LexMin(C) == CHOOSE c \in C : \A d \in C : c[1] < d[1] \/ (c[1] = d[1] /\ c[2] <= d[2])

\* strategies (outer loop) x pools (inner loop); <<0, 0>> if nothing fits
Choice(vav, strats) ==
    LET C == {c \in (1..Len(strats)) \X (1..Len(vav)) : PoolFits(vav[c[2]], strats[c[1]].dem)}
    IN  IF C = {} THEN <<0, 0>> ELSE LexMin(C)

\* WorkerPool.place_task(task, execution_strategy=s): first worker that accommodates s
AllocWith(pav, dem) ==
    LET w == CHOOSE w \in 1..Len(pav) : VFits(pav[w], dem) /\ \A v \in 1..(w - 1) : ~VFits(pav[v], dem)
    IN  [pav EXCEPT ![w] = VSub(@, dem)]

\* WorkerPool.place_task(task) as LSF calls it: workers (outer) x the task's
\* strategies (inner), the first pair that fits is what gets allocated
AllocAny(pav, strats) ==
    LET C == {c \in (1..Len(pav)) \X (1..Len(strats)) : VFits(pav[c[1]], strats[c[2]].dem)}
        c == LexMin(C)
    IN  [pav EXCEPT ![c[1]] = VSub(@, strats[c[2]].dem)]

RECURSIVE Run(_, _, _, _, _, _)
Run(quirk, I, ord, i, vav, acc) ==
    IF i > Len(ord) THEN acc
    ELSE LET t  == ord[i]
             st == I.tasks[t].strats
             c  == Choice(vav, st)
         IN  IF c = <<0, 0>>
             THEN Run(quirk, I, ord, i + 1, vav, acc)
             ELSE Run(quirk, I, ord, i + 1,
                      [vav EXCEPT ![c[2]] = IF quirk THEN AllocAny(@, st) ELSE AllocWith(@, st[c[1]].dem)],
                      [acc EXCEPT ![t] = Placed(c[2], c[1])])

\* what the live pools have free / what the policy's virtual cluster starts with:
\* copy(worker_pools) keeps the allocations, deepcopy (preemptive) undoes them all
LiveAv(I)      == Tup([p \in PoolIds(I) |-> I.pools[p].av])
StartAv(I)     == IF I.preemptive THEN Tup([p \in PoolIds(I) |-> I.pools[p].cap]) ELSE LiveAv(I)
NonePlaced(I)  == Tup([t \in TaskIds(I) |-> Unplaced])

\* first fit in the stable order of the keys K
PlanWith(K, I) ==
    LET ord == OrderOf(K)
    IN  [order |-> ord, place |-> Run(FALSE, I, ord, 1, StartAv(I), NonePlaced(I))]

\* the intended algorithm: the reported strategy is what is virtually allocated
Plan(k, I) == PlanWith(Keys(k, I), I)

\* the algorithm as written: LSF allocates with place_task(task) (no strategy)
CodedPlan(k, I) ==
    LET ord == Order(k, I)
    IN  [order |-> ord, place |-> Run(k = "LSF", I, ord, 1, StartAv(I), NonePlaced(I))]

-----------------------------------------------------------------------------
(* the property, evaluated on an answer without the virtual cluster *)
WellFormedAns(I, a) ==
    /\ DOMAIN a.place = TaskIds(I)
    /\ \A t \in TaskIds(I) :
          IF a.place[t].placed
          THEN a.place[t].pool \in PoolIds(I) /\ a.place[t].strat \in 1..Len(I.tasks[t].strats)
          ELSE a.place[t].pool = 0 /\ a.place[t].strat = 0
    /\ \A i \in 1..Len(a.order) : a.order[i] \in TaskIds(I)

\* the tasks of S that the answer places on pool p
OnPool(a, S, p) == {u \in S : a.place[u].placed /\ a.place[u].pool = p}

\* greedy policies report worker_id = None: the tasks of S with demands d fit
\* the pool iff some assignment to its workers exists
Packs(pav, S, d) ==
    IF Len(pav) = 1
    THEN VFits(pav[1], VSum(S, d, Len(pav[1])))
    ELSE \E f \in [S -> 1..Len(pav)] :
            \A w \in 1..Len(pav) : VFits(pav[w], VSum({u \in S : f[u] = w}, d, Len(pav[w])))

Feasible(I, a) ==
    \A p \in PoolIds(I) :
        LET S == OnPool(a, TaskIds(I), p)
        IN  Packs(StartAv(I)[p], S, [u \in S |-> Dem(I, u, a.place[u].strat)])

\* Pools with several workers.  A pool-level Placement does not say which worker
\* took the task.  An assignment f of the tasks S (demands d: their REPORTED
\* strategies) to the workers of the pool is consistent if no worker is
\* over-committed.  Whatever worker the policy's virtual pool chose for each placed
\* task, that choice is one of the consistent assignments.
Load(pav, S, d, f, w) == VSum({u \in S : f[u] = w}, d, Len(pav[w]))
Assignments(pav, S, d) ==
    {f \in [S -> 1..Len(pav)] : \A w \in 1..Len(pav) : VFits(pav[w], Load(pav, S, d, f, w))}
\* some strategy fits some worker once the assignment f is accounted for
RoomUnder(pav, S, d, f, strats) ==
    \E w \in 1..Len(pav) : \E s \in 1..Len(strats) :
        VFits(VSub(pav[w], Load(pav, S, d, f, w)), strats[s].dem)
\* ... under EVERY consistent assignment (and there is one): the task had room
\* whichever workers took the placed tasks.  If one consistent assignment leaves no
\* room the pool does not show an inversion (not judged: counted by MWStats).
RoomUnderAll(pav, S, d, strats) ==
    LET A == Assignments(pav, S, d)
    IN  A # {} /\ \A f \in A : RoomUnder(pav, S, d, f, strats)

\* the placed tasks of higher or equal priority than t
HiPlaced(K, I, a, t) == {u \in TaskIds(I) \ {t} : a.place[u].placed /\ HiEq(K, u, t)}
ReportedDem(I, a, S) == [u \in S |-> Dem(I, u, a.place[u].strat)]

\* A task is left unplaced only if none of its strategies fits any pool once
\* the placed tasks of higher or equal priority are accounted for.
\* Single-worker pool: the accounting is unique.  Pool with several workers: the
\* task must have had room under every consistent accounting (RoomUnderAll).
InvertedK(K, I, a, t) ==
    /\ ~a.place[t].placed
    /\ LET hi == HiPlaced(K, I, a, t)
       IN  \E p \in PoolIds(I) :
              IF Len(StartAv(I)[p]) = 1
              THEN LET S == OnPool(a, hi, p) \cup {t}
                   IN  \E s \in 1..Len(I.tasks[t].strats) :
                          Packs(StartAv(I)[p], S,
                                [u \in S |-> IF u = t THEN Dem(I, t, s) ELSE Dem(I, u, a.place[u].strat)])
              ELSE LET H == OnPool(a, hi, p)
                   IN  RoomUnderAll(StartAv(I)[p], H, ReportedDem(I, a, H), I.tasks[t].strats)

\* the weaker reading on a pool with several workers (not a clause, a counter): the
\* task has room under SOME consistent assignment of the placed tasks
RoomUnderSomeK(K, I, a, t) ==
    /\ ~a.place[t].placed
    /\ LET hi == HiPlaced(K, I, a, t)
       IN  \E p \in PoolIds(I) :
              /\ Len(StartAv(I)[p]) > 1
              /\ LET H == OnPool(a, hi, p)
                     d == ReportedDem(I, a, H)
                 IN  \E f \in Assignments(StartAv(I)[p], H, d) :
                        RoomUnder(StartAv(I)[p], H, d, f, I.tasks[t].strats)

Inverted(k, I, a, t) == InvertedK(Prios(k, I), I, a, t)

NoInversion(k, I, a) == LET K == Prios(k, I) IN \A t \in TaskIds(I) : ~InvertedK(K, I, a, t)

\* Placements are appended in the order the tasks are considered: the returned
\* sequence is sorted by the full sort key (stricter than the statement)
OrderKey(k, I, a) ==
    LET K == Keys(k, I)
    IN  \A i, j \in 1..Len(a.order) : i < j => ~KLess(K[a.order[j]], K[a.order[i]])

SameAsPlan(k, I, a) == LET P == Plan(k, I) IN a.place = P.place /\ a.order = P.order

-----------------------------------------------------------------------------
(* the bound *)
\* offer order: the tasks of one graph together, then the running ones in pool
\* order; the bound has at most one running task per instance
OfferOK(gs, ons) ==
    /\ \A i, j, k \in 1..Len(gs) :
          (i < j /\ j < k /\ gs[i] = gs[k] /\ ons[i] = 0 /\ ons[j] = 0 /\ ons[k] = 0) => gs[j] = gs[i]
    /\ RunningLast(ons)
    /\ Cardinality({i \in 1..Len(ons) : ons[i] > 0}) <= 1

ShapeSet == {TheShapes[i] : i \in 1..Len(TheShapes)}
PoolSeqSet == {ThePoolSeqs[i] : i \in 1..Len(ThePoolSeqs)}

\* the pools of an instance with tasks ts: in a preemptive bound the running tasks
\* are the only occupants
PoolsFor(ts, p) ==
    IF ~Preemptive THEN ThePoolSeqs[p]
    ELSE LET ps == ThePoolSeqs[p]
         IN  Tup([q \in 1..Len(ps) |->
                    [cap |-> ps[q].cap,
                     av  |-> <<VSub(ps[q].cap[1], RunningDem(ts, q, Len(ps[q].cap[1])))>>]])

\* Instances = {I : InBound(I)}
InBound(I) ==
    /\ I.now = Now /\ I.preemptive = Preemptive
    /\ Len(I.tasks) \in 1..MaxTasks
    /\ \A t \in 1..Len(I.tasks) : I.tasks[t] \in ShapeSet
    /\ OfferOK([t \in 1..Len(I.tasks) |-> I.tasks[t].graph], [t \in 1..Len(I.tasks) |-> I.tasks[t].ran.on])
    /\ IF Preemptive THEN \E p \in 1..Len(ThePoolSeqs) : I.pools = PoolsFor(I.tasks, p)
                     ELSE I.pools \in PoolSeqSet

InstanceOf(s, p) ==
    LET ts == Tup([t \in 1..Len(s) |-> TheShapes[s[t]]])
    IN  [now |-> Now, preemptive |-> Preemptive, tasks |-> ts, pools |-> PoolsFor(ts, p)]

\* the small constants describe the big ones, and codes are injective
BoundOK ==
    /\ NShapes = Len(TheShapes) /\ NPools = Len(ThePoolSeqs) /\ NRecords = Len(TheRecords)
    /\ GraphOf = Tup([i \in 1..NShapes |-> TheShapes[i].graph])
    /\ OnOf = Tup([i \in 1..NShapes |-> TheShapes[i].ran.on])
    /\ Cardinality(ShapeSet) = NShapes
    /\ Cardinality(PoolSeqSet) = NPools
    /\ FirstIx \subseteq 1..NShapes

-----------------------------------------------------------------------------
(* vacuity counters (TLC registers; the runs use a single worker) *)
Bump(r, cond) == IF cond THEN TLCSet(r, TLCGet(r) + 1) ELSE TRUE

NStats == 17    \* 10..13 are bumped by UnitStats, 14..17 by MWStats (records only)
Stats(k, I, a) ==
    LET T == TaskIds(I)
        K == Keys(k, I)
        Q == Prios(k, I)
        ord == OrderOf(K)
    IN  /\ Bump(1, TRUE)
        /\ Bump(2, \E t \in T : ~a.place[t].placed)
        \* looks like an inversion, is justified by the fit check
        /\ Bump(3, \E t, u \in T : ~a.place[t].placed /\ a.place[u].placed /\ KLess(Q[t], Q[u]))
        /\ Bump(4, \E t, u \in T : t # u /\ K[t] = K[u])
        /\ Bump(5, \E t \in T : ord[t] # t)
        /\ Bump(6, \E t \in T : a.place[t].placed /\ a.place[t].strat > 1)
        /\ Bump(7, \E t \in T : a.place[t].placed /\ a.place[t].pool > 1)
        /\ Bump(8, \A t \in T : a.place[t].placed)
        \* an unplaced task that would fit the cluster as it is before the call
        /\ Bump(9, \E t \in T : ~a.place[t].placed /\ Choice(StartAv(I), I.tasks[t].strats) # <<0, 0>>)

\* vacuity counters of the clause for pools with several workers
MWStats(k, I, a) ==
    LET T  == TaskIds(I)
        Q  == Prios(k, I)
        MW == {p \in PoolIds(I) : Len(StartAv(I)[p]) > 1}
    IN  /\ Bump(14, MW # {})
        /\ Bump(15, MW # {} /\ \E t \in T : ~a.place[t].placed)
        \* the quantifier over assignments is not trivial: an unplaced task meets a pool
        \* whose placed tasks of higher-or-equal priority can be accounted in several ways
        /\ Bump(16, \E t \in T : ~a.place[t].placed /\ \E p \in MW :
                        LET H == OnPool(a, HiPlaced(Q, I, a, t), p)
                        IN  Cardinality(Assignments(StartAv(I)[p], H, ReportedDem(I, a, H))) > 1)
        \* not judged: room under some consistent assignment, but not under all
        /\ Bump(17, \E t \in T : RoomUnderSomeK(Q, I, a, t) /\ ~InvertedK(Q, I, a, t))

StatsLine == PrintT("@@stats " \o ToString([r \in 1..(NStats + 1) |-> TLCGet(r)]))

-----------------------------------------------------------------------------
(* M: every instance of the bound is an initial state; there are no steps.   *)
(* A run enumerates the part whose first task has its shape in FirstIx (one   *)
(* JVM per part; the parts partition the bound).                              *)
EnumInit ==
    /\ idx = 0
    /\ kind \in Kinds
    /\ sel \in UNION {[1..n -> 1..NShapes] : n \in 1..MaxTasks}
    /\ sel[1] \in FirstIx
    /\ OfferOK([t \in 1..Len(sel) |-> GraphOf[sel[t]]], [t \in 1..Len(sel) |-> OnOf[sel[t]]])
    /\ pix \in 1..NPools

NoNext == idx < 0 /\ UNCHANGED vars

\* the theorem: the intended algorithm satisfies the property (and returns a
\* feasible answer in key order) on every instance of the bound
Theorem ==
    LET I == InstanceOf(sel, pix)
        P == Plan(kind, I)
    IN  /\ WellFormedInst(I) /\ InBound(I) /\ WellFormedAns(I, P)
        /\ NoInversion(kind, I, P)
        /\ Feasible(I, P)
        /\ OrderKey(kind, I, P)
        /\ Stats(kind, I, P)
\* LSF allocates virtually with place_task(task) - no strategy - but reports the
\* loop's strategy: on this bound both are the same strategy on the same worker
CodedIsPlan ==
    LET I == InstanceOf(sel, pix) IN kind = "LSF" => CodedPlan(kind, I) = Plan(kind, I)
\* the property for the algorithm as written (used where CodedIsPlan fails)
CodedNoInversion == LET I == InstanceOf(sel, pix) IN NoInversion(kind, I, CodedPlan(kind, I))
CodedFeasible    == LET I == InstanceOf(sel, pix) IN Feasible(I, CodedPlan(kind, I))

-----------------------------------------------------------------------------
(* R / T: call records made on the real schedulers.                          *)
(* record: [id, kind, inst, ans, bound (claims InBound), before, after,       *)
(*          remaining, seen, listed]                                          *)
(* before / after: availability per pool / worker / resource name / listed    *)
(* instance, read from the live pools just before and after schedule().       *)
(* seen: the times as the real objects carry them, read back just before      *)
(* schedule(): [now, tasks : per task [deadline, release, remaining, rt : per   *)
(* strategy]], each time as [n |-> EventTime.time, u |-> name of its Unit].    *)
(* listed: per pool / worker / resource name the total quantities of the       *)
(* instances the real worker lists under that name (dict order).               *)
RecInit ==
    /\ idx \in 1..NRecords
    /\ kind = "" /\ sel = <<>> /\ pix = 0

UnitUs(u) == CASE u = "US" -> 1 [] u = "MS" -> 1000 [] u = "S" -> 1000000
Us(e) == e.n * UnitUs(e.u)

\* the real objects denote the instance: every time, converted here from its own
\* unit, is the instance's microsecond value; the instances a worker lists under a
\* name add up to the capacity of that name
RealisationOK(r) ==
    LET I == r.inst
    IN  /\ Us(r.seen.now) = I.now
        /\ Len(r.seen.tasks) = Len(I.tasks)
        /\ \A t \in TaskIds(I) :
              LET x == r.seen.tasks[t]
              IN  /\ Us(x.deadline) = I.tasks[t].deadline
                  /\ Us(x.release) = I.tasks[t].release
                  /\ Len(x.rt) = Len(I.tasks[t].strats)
                  /\ \A s \in 1..Len(x.rt) : Us(x.rt[s]) = I.tasks[t].strats[s].rt
        /\ Len(r.listed) = Len(I.pools) /\ Len(r.before) = Len(I.pools)
        /\ \A p \in PoolIds(I) :
              /\ Len(r.listed[p]) = Len(I.pools[p].cap) /\ Len(r.before[p]) = Len(I.pools[p].cap)
              /\ \A w \in 1..Len(I.pools[p].cap) :
                    /\ Len(r.listed[p][w]) = NRes(I)
                    /\ Len(r.before[p][w]) = NRes(I)
                    /\ \A k \in 1..NRes(I) :
                          /\ SumTo(r.listed[p][w][k], Len(r.listed[p][w][k])) = I.pools[p].cap[w][k]
                          \* what is free on the instances adds up to the pool's availability
                          /\ Len(r.before[p][w][k]) = Len(r.listed[p][w][k])
                          /\ SumTo(r.before[p][w][k], Len(r.before[p][w][k])) = I.pools[p].av[w][k]

\* the keys of a policy that forgets the unit: it compares / subtracts the bare
\* EventTime.time counts (equal to Keys when every time is in microseconds)
BlindKeys(k, r) ==
    Tup([t \in TaskIds(r.inst) |->
        LET x == r.seen.tasks[t]
        IN  CASE k = "EDF"  -> <<x.deadline.n, r.inst.tasks[t].graph>>
              [] k = "FIFO" -> <<x.release.n, 0>>
              [] k = "LSF"  -> <<x.deadline.n - r.seen.now.n - x.remaining.n, 0>>])

\* vacuity counters of the realisation: how many records would tell a unit-blind
\* policy from the specified one
UnitStats(r) ==
    LET k == r.kind  I == r.inst
        B == BlindKeys(k, r)
    IN  /\ Bump(10, \/ r.seen.now.u # "US"
                    \/ \E t \in TaskIds(I) :
                          LET x == r.seen.tasks[t]
                          IN  \/ x.deadline.u # "US" \/ x.release.u # "US" \/ x.remaining.u # "US"
                              \/ \E s \in 1..Len(x.rt) : x.rt[s].u # "US")
        /\ Bump(11, OrderOf(B) # Order(k, I))
        /\ Bump(12, ~NoInversion(k, I, PlanWith(B, I)))
        /\ Bump(13, \E p \in PoolIds(I) : \E w \in 1..Len(r.listed[p]) :
                        \E n \in 1..Len(r.listed[p][w]) : Len(r.listed[p][w][n]) > 1)

Clauses == {"harness.wf", "harness.bound", "harness.build", "C13.no_inversion", "C13.plan_eq",
            "C13.order_key", "side.feasible", "side.pools_unchanged", "side.remaining", "model.coded_eq"}

Holds(c, r) ==
    LET k == r.kind  I == r.inst  a == r.ans
    IN  CASE c = "harness.wf"    -> /\ WellFormedInst(I) /\ WellFormedAns(I, a) /\ k \in {"EDF", "FIFO", "LSF"}
                                    /\ (I.preemptive => k # "FIFO")      \* FIFOScheduler asserts it
          [] c = "harness.bound" -> r.bound => (InBound(I) /\ k \in Kinds)
          [] c = "harness.build" -> RealisationOK(r)
          \* Task.remaining_time (converted by the code / converted here from its own unit) is
          \* the remaining time of the statement: where it is not, LSF's key is not the slack
          [] c = "side.remaining" -> /\ r.remaining = Tup([t \in TaskIds(I) |-> Remaining(I.tasks[t])])
                                     /\ \A t \in TaskIds(I) : Us(r.seen.tasks[t].remaining) = Remaining(I.tasks[t])
          [] c = "C13.no_inversion" -> NoInversion(k, I, a)
          [] c = "C13.plan_eq"   -> SameAsPlan(k, I, a)
          [] c = "C13.order_key" -> OrderKey(k, I, a)
          [] c = "side.feasible" -> Feasible(I, a)
          [] c = "side.pools_unchanged" -> r.after = r.before
          [] c = "model.coded_eq" -> a.place = CodedPlan(k, I).place

Expected(c, r) ==
    CASE c = "C13.plan_eq"      -> Plan(r.kind, r.inst)
      [] c = "model.coded_eq"   -> CodedPlan(r.kind, r.inst)
      [] c = "C13.order_key"    -> [key |-> Keys(r.kind, r.inst)]
      [] c = "side.remaining"   -> [t \in TaskIds(r.inst) |-> Remaining(r.inst.tasks[t])]
      [] c = "C13.no_inversion" ->
            [inverted |-> {t \in TaskIds(r.inst) : Inverted(r.kind, r.inst, r.ans, t)},
             prio |-> [t \in TaskIds(r.inst) |-> Prios(r.kind, r.inst)[t][1]],
             plan |-> Plan(r.kind, r.inst),
             \* diagnosis: the answer is what a policy that forgets the units returns
             answer_is_unit_blind_plan |-> r.ans.place = PlanWith(BlindKeys(r.kind, r), r.inst).place]
      [] OTHER -> <<>>

\* every failing clause of every record is printed ("@@ id clause expected");
\* the invariant itself always holds, so all records are looked at
RecChecked ==
    LET r  == TheRecords[idx]
        wf == Holds("harness.wf", r)
        F  == IF wf THEN {c \in Clauses : ~Holds(c, r)} ELSE {"harness.wf"}
    IN  /\ \A c \in F : PrintT("@@ " \o ToString(r.id) \o " " \o c \o " " \o ToString(Expected(c, r)))
        /\ IF wf THEN Stats(r.kind, r.inst, r.ans) /\ Bump(NStats + 1, "C13.plan_eq" \notin F) ELSE TRUE
        /\ IF wf /\ "harness.build" \notin F THEN UnitStats(r) ELSE TRUE
        /\ IF wf THEN MWStats(r.kind, r.inst, r.ans) ELSE TRUE
=============================================================================
