"""C14 — optimisation-based planners do not leave achievable goodput on the table.

spec/PlanSpace.tla is the oracle: a state machine whose states are the feasible
(partial) plans of one instance in the policy's own decision space (DESIGN §7).

T  instances inside the property's bound (<= 4 offered tasks in 1-3 task graphs,
   <= 2 workers, <= 2 strategies, horizon <= 12 slots, discretisation 1-3, running
   occupants, SCHEDULED tasks, task-by-task mode and whole-graph chains; directed
   ones that need one convention exactly + seeded-random ones; workers that list one
   resource name under 2-3 ids - the name:id syntax of the worker profiles - with
   quantities 1-2, alone or next to single-entry workers, capacity-bound on that name,
   demands with the `any` id and with specific ids: PlanSpace counts a worker's capacity
   per name as the SUM over its instances and a pinned unit against its instance; times
   in mixed EventTime units: runtimes / discretisation in ms, deadlines in us) are built
   as real tasks / Workload / WorkerPools; the real ILPScheduler(goal=max_goodput),
   TetriSchedGurobiScheduler and TetriSchedCPLEXScheduler `schedule()` are called;
   the (instance, answer) records go to TLC in batches (one JVM per batch):
     ILP        kind "opt": TLC searches the plan space (branch and bound by the
                CONSTRAINT CanImprove); C14_NoBetterPlan: no complete feasible plan
                has more goodput than the answer.  The counterexample is a better plan.
     TetriSched kind "max": the state is the answer; C14_Maximal: no offered task can
                be added at any allowed (worker, strategy, slot).
   Failing records are judged again under the conventions of the pinned model
   (conv.pairSum / unplacedTimed / occupants charged their full runtime / only
   reward tasks count): a record that fails under the statement-level conventions
   is a violation either way; the variant that makes it pass names its cause (a
   stable finding key per cause), no such variant = a new defect (key = instance).
   Every violation is reproduced: the instance is solved again and the planner's own
   captured Gurobi model is asked about TLC's witness (fix the variables, optimise).
M  PlanSpace alone on fixed instances, kind "enum": number of states = number of
   feasible partial plans (the enumeration is not vacuous).
E  decision-space equality: on fixed cases and a sample of the records, EVERY
   syntactic plan is fix-checked on the captured Gurobi model; the feasible set
   must equal the set of complete plans PlanSpace reaches (pinned-model conventions
   on the unchanged tree) - the conventions of the spec are the planner's.
"""
from __future__ import annotations

import contextlib
import hashlib
import json
import os
import re
import tempfile
import time

from . import mcgen, tlaval, tlc
from .common import CheckResult, Scratch, parallel, rng
from .mcgen import Raw
from .realobj import ns, us

RES = ("r1", "r2")
POLICIES = ("ilp", "tsg", "tsc")
CLAUSE = {
    "ilp": "C14.ilp_goodput_optimal",
    "tsg": "C14.tetrisched_gurobi_maximal",
    "tsc": "C14.tetrisched_cplex_maximal",
}
SCHED_NAME = {"ilp": "ILPScheduler", "tsg": "TetriSchedGurobiScheduler", "tsc": "TetriSchedCPLEXScheduler"}
# conventions of the pinned models that are tighter than the statement-level decision
# space; used only to name the cause of a violation
FLAGS = {"ilp": ("occFull", "pairSum", "unplacedTimed"), "tsg": ("occFull", "rewardOnly"), "tsc": ("occFull",)}
CAUSE_TEXT = {
    "occFull": "a RUNNING task is charged its strategy's full runtime from `now` instead of its remaining time",
    "pairSum": "the ILP adds up the demands of all tasks whose intervals overlap a task's interval (even if they "
    "do not overlap each other, even on workers the task is not placed on) instead of the load at an instant",
    "unplacedTimed": "the ILP's start variable of an unplaced task must still fit [max(now+1, release), deadline] "
    "and follow its parents: one hopeless task makes the model infeasible and nothing is placed",
    "rewardOnly": "with release_taskgraphs only sink tasks carry a reward: a placeable non-sink task whose "
    "children cannot be placed is left out (no goodput is lost)",
}
JAVA_OPTS = mcgen.LIB_OPT + ["-XX:ParallelGCThreads=2", "-Xss16m"]


# ---------------------------------------------------------------------------
# abstract instances


MAXIDS = 3  # a worker lists one resource name under at most 3 ids ("0", "1", "2")


def _strat(d, r, pin=None):
    """dem[k]: units of resource name k asked for in total; pin[k][i]: the part of dem[k]
    asked for with the specific id str(i) (the rest is asked for with the `any` id)"""
    pin = [list(x) for x in (pin or [[] for _ in d])]
    assert len(pin) == len(d) and all(sum(x) <= q and len(x) <= MAXIDS for x, q in zip(pin, d)), (d, pin)
    return {"dem": list(d), "rt": r, "pin": pin}


def T(graph, release, deadline, strats, parents=(), occ_parents=(), must=None, virtual_child=False):
    """strats: (dem, rt) or (dem, rt, pin)"""
    return {
        "graph": graph, "release": release, "deadline": deadline,
        "strats": [_strat(*x) for x in strats],
        "parents": list(parents), "occParents": list(occ_parents), "must": must, "virtualChild": virtual_child,
    }


def O(w, dem, rem, full=None, graph=None, pin=None):
    return {"w": w, "dem": list(dem), "pin": _strat(dem, 0, pin)["pin"], "rem": rem, "full": full or rem, "graph": graph}


def case(policy, mode, now, caps, occ, tasks, disc=1, plan_ahead=-1, tag="gen", units=None):
    """caps[w][k]: an int c (the worker lists resource name k once, without id, quantity c; 0 = not
    at all) or a list [q0, q1, ..] (the worker lists the SAME name under the ids "0", "1", ..: the
    documented name:id syntax of the worker profiles; it owns sum(q) units).
    units: EventTime units of the real objects, e.g. {"rt": "MS", "disc": "MS"} (default US); the
    abstract values are always microseconds."""
    occ = [dict(o, graph=o["graph"] or f"og{i+1}") for i, o in enumerate(occ)]
    inst = {"now": now, "caps": [[list(c) if isinstance(c, (list, tuple)) else c for c in cap] for cap in caps], "occ": occ, "tasks": tasks}
    if units:
        inst["units"] = dict(units)
    return {"policy": policy, "mode": mode, "disc": disc, "plan_ahead": plan_ahead, "tag": tag, "inst": inst}


def _tot(c):
    """units of one resource name a worker owns (all its instances together)"""
    return sum(c) if isinstance(c, list) else c


def _tots(caps):
    return [[_tot(c) for c in cap] for cap in caps]


def _multi(inst):
    return any(isinstance(c, list) and len(c) > 1 for cap in inst["caps"] for c in cap)


def _pinned(inst):
    return any(any(x) for t in inst["tasks"] for s_ in t["strats"] for x in s_["pin"]) or any(any(x) for o in inst["occ"] for x in o.get("pin", []))


def directed():
    """Instances whose optimum / maximal plan needs one convention exactly."""
    A, B, AB = [1, 0], [0, 1], [1, 1]
    out = []
    for mode in ("tasks", "graphs"):
        # ILP: two tasks back to back need exactly the +1 gap; a third cannot fit
        out.append(case("ilp", mode, 0, [A], [], [T("g1", 0, 3, [(A, 2)]), T("g2", 0, 6, [(A, 2)])], tag="ilp_gap_exact"))
        out.append(case("ilp", mode, 2, [[2, 0]], [O(1, A, 3)], [T("g1", 2, 6, [(A, 3)]), T("g2", 1, 6, [([2, 0], 1)]), T("g3", 0, 9, [([2, 0], 2)])], tag="ilp_capacity_full"))
        out.append(case("ilp", mode, 0, [A, B], [], [T("g1", 0, 4, [(A, 3), (B, 2)]), T("g2", 0, 4, [(A, 3)]), T("g3", 0, 3, [(B, 2)])], tag="ilp_two_workers"))
        out.append(case("ilp", mode, 1, [[2, 1]], [O(1, AB, 2)], [T("g1", 0, 5, [(AB, 1)]), T("g2", 1, 5, [(A, 3)])], tag="ilp_after_occupant"))
    # ILP whole graphs: a chain needs child >= parent + rt + 1; reward = all sinks
    out.append(case("ilp", "graphs", 0, [A], [], [T("g1", 0, 9, [(A, 2)]), T("g1", -1, 6, [(A, 2)], parents=[1]), T("g2", 0, 9, [(A, 2)])], tag="ilp_chain_exact"))
    out.append(case("ilp", "graphs", 0, [[2, 0]], [], [T("g1", 0, 9, [(A, 2), ([2, 0], 1)]), T("g1", -1, 9, [(A, 3)], parents=[1]), T("g1", -1, 9, [(A, 1)], parents=[2]), T("g2", 0, 4, [([2, 0], 3)])], tag="ilp_chain3"))
    out.append(case("ilp", "tasks", 0, [[2, 0]], [], [T("g1", 0, 3, [(A, 2)]), T("g1", 0, 3, [(A, 2)]), T("g2", 0, 3, [([2, 0], 2)])], tag="ilp_pair_and"))
    # two pairs, room for two tasks: one whole graph beats one task of each
    out.append(case("ilp", "tasks", 0, [[2, 0]], [], [T("g1", 0, 3, [(A, 2)]), T("g1", 0, 3, [(A, 2)]), T("g2", 0, 3, [(A, 2)]), T("g2", 0, 3, [(A, 2)])], tag="ilp_pair_and2"))
    for pol in ("tsg", "tsc"):
        # touching intervals are allowed: three unit tasks fill slots 0,1,2
        out.append(case(pol, "tasks", 0, [A], [], [T("g1", 0, 3, [(A, 1)]), T("g2", 0, 3, [(A, 1)]), T("g3", 0, 3, [(A, 1)])], tag="ts_touching"))
        # only the last slot of the horizon is free / usable
        out.append(case(pol, "tasks", 0, [A], [], [T("g1", 0, 6, [(A, 6)]), T("g2", 0, 9, [(A, 1)])], disc=3, plan_ahead=6, tag="ts_last_slot"))
        out.append(case(pol, "tasks", 0, [A], [O(1, A, 6)], [T("g1", 0, 9, [(A, 1)])], disc=3, plan_ahead=6, tag="ts_last_slot_occ"))
        out.append(case(pol, "tasks", 0, [[2, 1]], [O(1, A, 2)], [T("g1", 0, 4, [([2, 0], 2), (AB, 4)]), T("g2", 0, 4, [(A, 2)])], tag="ts_capacity_full"))
        out.append(case(pol, "tasks", 2, [A, B], [], [T("g1", 0, 8, [(A, 3)]), T("g2", 1, 8, [(A, 3), (B, 5)]), T("g3", 2, 6, [(B, 1)])], disc=2, tag="ts_disc2"))
    # two strategies of different runtimes: only the FASTER one meets the deadline, possibly
    # only at the latest slot deadline - fastest.rt (a model that prunes start slots with
    # the slowest strategy's runtime / Task.remaining_time loses exactly these placements)
    W2 = [2, 0]
    for pol in POLICIES:
        lb = 1 if pol == "ilp" else 0          # first allowed start after `now`
        gap = 1 if pol == "ilp" else 0         # closed intervals need one more instant
        for disc in ((1,) if pol == "ilp" else (1, 3)):
            fast, slow = (2, 6) if disc == 1 else (3, 8)
            two = [(W2, fast), (A, slow)]
            # (a) idle worker, deadline < now + slowest.rt but >= now + fastest.rt
            out.append(case(pol, "tasks", 0, [W2], [], [T("g1", 0, lb + fast + (0 if disc == 1 else 3), two)], disc=disc, tag=f"two_rt_idle_d{disc}"))
            out.append(case(pol, "tasks", 2, [W2, A], [], [T("g1", 1, 2 + lb + fast + 1, two), T("g2", 2, 2 + lb + fast + 1, [(A, fast + 1)])], disc=disc, tag=f"two_rt_idle2_d{disc}"))
            # (b) the early slots are held by a RUNNING occupant (just started: remaining =
            # full runtime): only [deadline - fastest.rt] fits
            hold = 4 if disc == 1 else 6
            out.append(case(pol, "tasks", 0, [W2], [O(1, W2, hold)], [T("g1", 0, hold + gap + fast, two)], disc=disc, tag=f"two_rt_after_occupant_d{disc}"))
            out.append(case(pol, "tasks", 0, [A, W2], [O(1, A, 9), O(2, W2, hold)], [T("g1", 0, hold + gap + fast, [(W2, fast), (A, slow + 1)])], disc=disc, tag=f"two_rt_after_occupant2_d{disc}"))
            # (b') ... by a previously SCHEDULED task that has to stay placed (no retraction)
            # and can only run first
            must = T("g1", 0, lb + hold, [(W2, hold)], must={"w": 1, "s": 1, "start": lb})
            out.append(case(pol, "tasks", 0, [W2], [], [must, T("g2", 0, lb + hold + gap + fast, two)], disc=disc, tag=f"two_rt_after_scheduled_d{disc}"))
    # minimal instances of the findings on the pinned tree (one per cause, see FLAGS)
    for pol in POLICIES:
        out.append(case(pol, "tasks", 3, [A], [O(1, A, 1, 4)], [T("g1", 3, 8, [(A, 2)])], tag="finding_occFull"))
    out.append(case("ilp", "tasks", 0, [[2, 0]], [], [T("g1", 0, 6, [(A, 5)]), T("g2", 0, 2, [(A, 1)]), T("g3", 0, 6, [(A, 1)])], tag="finding_pairSum"))
    out.append(case("ilp", "tasks", 0, [A], [], [T("g1", 0, 0, [(A, 1)]), T("g2", 0, 5, [(A, 1)])], tag="finding_unplacedTimed"))
    out.append(case("tsg", "graphs", 0, [A], [], [T("g1", 0, 9, [(A, 2)]), T("g1", -1, 3, [(A, 2)], parents=[1])], tag="finding_rewardOnly"))
    out.append(case("tsg", "graphs", 0, [A], [], [T("g1", 0, 9, [(A, 2), (A, 1)]), T("g1", -1, 5, [(A, 2)], parents=[1])], tag="tsg_chain_slowest"))
    out.append(case("tsg", "graphs", 0, [[2, 0]], [], [T("g1", 0, 9, [(A, 2)]), T("g1", -1, 9, [([2, 0], 2)], parents=[1]), T("g2", 0, 6, [(A, 3)])], disc=3, tag="tsg_chain_disc3"))
    return out


def directed_multi(quick=False):
    """Workers that list ONE resource name under several ids (name:id syntax of the worker
    profiles): the worker owns the SUM of the listed quantities.  Every instance is
    capacity-bound on that name: the optimum / the maximal plan needs more units at one
    instant than any single entry (the first, the last, the largest) provides."""
    A, B, AA, AB = [1, 0], [0, 1], [2, 0], [1, 1]
    G11, G12, G21, G111 = [[1, 1], 0], [[1, 2], 0], [[2, 1], 0], [[1, 1, 1], 0]
    out = []
    for pol in POLICIES:
        lb = 1 if pol == "ilp" else 0          # first allowed start after `now`
        gap = 1 if pol == "ilp" else 0         # closed intervals need one more instant
        modes = ("tasks",) if pol == "tsc" else ("tasks", "graphs")
        for mode in modes:
            m = "" if mode == "tasks" else "_graphs"
            # two 1-unit tasks that cannot be serialised on {0:1, 1:1}
            out.append(case(pol, mode, 0, [G11], [], [T("g1", 0, lb + 4, [(A, 3)]), T("g2", 0, lb + 4, [(A, 3)])], tag=f"multi_two_any{m}"))
            # one task that needs both instances
            out.append(case(pol, mode, 0, [G12], [], [T("g1", 0, lb + 3, [(AA, 3)]), T("g2", 0, lb + 3, [(A, 2)])], tag=f"multi_2plus1_q12{m}"))
            if quick and mode == "graphs":
                continue
            out.append(case(pol, mode, 0, [G11], [], [T("g1", 0, lb + 3, [(AA, 3)])], tag=f"multi_wide{m}"))
            # three instances: three 1-unit tasks at once; 2 + 1 units at once on {0:1, 1:2} / {0:2, 1:1}
            out.append(case(pol, mode, 2, [G111], [], [T("g1", 0, 2 + lb + 3, [(A, 2)]), T("g2", 1, 2 + lb + 3, [(A, 2)]), T("g3", 2, 2 + lb + 3, [(A, 2)])], tag=f"multi_three_any{m}"))
            out.append(case(pol, mode, 0, [G21], [], [T("g1", 0, lb + 3, [(AA, 3)]), T("g2", 0, lb + 3, [(A, 2)])], tag=f"multi_2plus1_q21{m}"))
        out.append(case(pol, "tasks", 0, [G111], [], [T("g1", 0, lb + 2, [([3, 0], 2)])], tag="multi_wide3"))
        # a RUNNING occupant (just started) holds one of the two units: a 1-unit task fits next to it,
        # a 2-unit task has to wait for it (and can then only start at the latest slot)
        out.append(case(pol, "tasks", 0, [G11], [O(1, A, 4)], [T("g1", 0, lb + 3, [(A, 2)])], tag="multi_occ_share"))
        out.append(case(pol, "tasks", 0, [G11], [O(1, A, 4)], [T("g1", 0, 4 + gap + 2, [(AA, 2)]), T("g2", 0, lb + 3, [(A, 3)])], tag="multi_occ_wait"))
        out.append(case(pol, "tasks", 2, [G12], [O(1, A, 3), O(1, A, 2)], [T("g1", 0, 2 + lb + 2, [(A, 2)]), T("g2", 2, 2 + lb + 2, [(A, 2)])], tag="multi_occ2_q12"))
        # next to a single-entry worker: three tasks at once need 2 + 1
        out.append(case(pol, "tasks", 0, [G11, A], [], [T("g1", 0, lb + 3, [(A, 3)]), T("g2", 0, lb + 3, [(A, 3)]), T("g3", 0, lb + 3, [(A, 3)])], tag="multi_mixed_workers"))
        out.append(case(pol, "tasks", 0, [[1, 1], [[1, 1], 0]], [O(1, AB, 5)], [T("g1", 0, lb + 3, [(AA, 2), (A, 6)]), T("g2", 0, lb + 4, [(B, 9)])], tag="multi_mixed_workers2"))
        # only the fast strategy (both instances) meets the deadline
        out.append(case(pol, "tasks", 0, [G11], [], [T("g1", 0, lb + 2, [(AA, 2), (A, 5)])], tag="multi_fast_wide"))
        # both resource names multi-instance
        out.append(case(pol, "tasks", 0, [[[1, 1], [1, 1]]], [], [T("g1", 0, lb + 3, [(AB, 3)]), T("g2", 0, lb + 3, [(AB, 3)])], tag="multi_both_names"))
        # a previously SCHEDULED task keeps one unit: the other one is still usable at the same time
        must = T("g1", 0, lb + 4, [(A, 4)], must={"w": 1, "s": 1, "start": lb})
        out.append(case(pol, "tasks", 0, [G11], [], [must, T("g2", 0, lb + 3, [(A, 3)])], tag="multi_next_to_scheduled"))
        # specific ids: one unit asked for with id "1", one with `any`: both at once
        P1, P0 = [[0, 1], []], [[1], []]
        out.append(case(pol, "tasks", 0, [G11], [], [T("g1", 0, lb + 3, [(A, 3, P1)]), T("g2", 0, lb + 3, [(A, 3)])], tag="multi_pin_and_any"))
        out.append(case(pol, "tasks", 0, [G12], [], [T("g1", 0, lb + 3, [(AA, 3, [[0, 2], []])]), T("g2", 0, lb + 3, [(A, 3, P0)])], tag="multi_pin_both"))
        out.append(case(pol, "tasks", 0, [G11, A], [], [T("g1", 0, lb + 3, [(AA, 3, P0)]), T("g2", 0, lb + 3, [(A, 3)])], tag="multi_pin_plus_any"))
        # two tasks that both want id "0" can only run one after the other (the planners' capacity
        # rows are per name: an answer that runs them at once is outside the space, no verdict)
        out.append(case(pol, "tasks", 0, [G11], [], [T("g1", 0, 9, [(A, 2, P0)]), T("g2", 0, 9, [(A, 2, P0)])], tag="multi_pin_same_id"))
    # whole graphs: a chain (parent at the first slot, child right behind it) next to a single task
    # that has to run at the same time as the parent / as the 2-unit child
    for pol in ("ilp", "tsg"):
        lb = 1 if pol == "ilp" else 0
        out.append(case(pol, "graphs", 0, [G11], [], [T("g1", 0, 9, [(A, 2)]), T("g1", -1, lb + 5, [(A, 2)], parents=[1]), T("g2", 0, lb + 2, [(A, 2)])], tag="multi_chain_and_single"))
        out.append(case(pol, "graphs", 0, [G111], [], [T("g1", 0, 9, [(A, 2)]), T("g1", -1, lb + 5, [(A, 2)], parents=[1]), T("g2", 0, lb + 5, [(A, 5)])], tag="multi_chain_long_single"))
    return out


def directed_units():
    """Times in MIXED EventTime units: runtimes (and TetriSched's discretisation) are given in
    milliseconds, deadlines / release times / `now` in microseconds.  The abstract values
    (and the spec's) are microseconds; a slot of TetriSched is 1000 or 2000 of them wide."""
    A, AA = [1, 0], [2, 0]
    G11 = [[1, 1], 0]
    U = {"rt": "MS", "disc": "MS"}
    out = []
    for pol in ("tsg", "tsc"):
        # touching intervals: three 1 ms tasks fill the slots 0, 1000, 2000
        out.append(case(pol, "tasks", 0, [A], [], [T("g1", 0, 3000, [(A, 1000)]), T("g2", 0, 3000, [(A, 1000)]), T("g3", 0, 3000, [(A, 1000)])], disc=1000, units=U, tag="units_touching"))
        # deadline not on the grid: 2 ms task, deadline 3999 us -> slots 0 and 1000 only
        out.append(case(pol, "tasks", 0, [A], [O(1, A, 1000)], [T("g1", 0, 3999, [(A, 2000)]), T("g2", 0, 2500, [(A, 1000)])], disc=1000, units=U, tag="units_off_grid"))
        out.append(case(pol, "tasks", 0, [G11], [], [T("g1", 0, 3000, [(A, 2000)]), T("g2", 0, 3500, [(A, 2000)]), T("g3", 0, 4000, [(AA, 2000), (A, 4000)])], disc=1000, units=U, tag="units_multi"))
        out.append(case(pol, "tasks", 2000, [AA], [], [T("g1", 1000, 8000, [(AA, 4000)]), T("g2", 0, 8000, [(A, 2000), (AA, 6000)])], disc=2000, plan_ahead=8000, units=U, tag="units_disc2"))
    out.append(case("tsg", "graphs", 0, [G11], [], [T("g1", 0, 9000, [(A, 2000)]), T("g1", -1, 6000, [(A, 2000)], parents=[1]), T("g2", 0, 5000, [(A, 5000)])], disc=1000, units=U, tag="units_chain"))
    # ILP: starts are whole microseconds; tight windows keep the plan space small
    U = {"rt": "MS"}
    out.append(case("ilp", "tasks", 0, [A], [], [T("g1", 0, 1003, [(A, 1000)]), T("g2", 0, 2004, [(A, 1000)])], units=U, tag="units_ilp_gap"))
    out.append(case("ilp", "tasks", 0, [G11], [], [T("g1", 0, 1002, [(A, 1000)]), T("g2", 0, 1003, [(A, 1000)]), T("g3", 0, 1004, [(A, 1000)])], units=U, tag="units_ilp_multi"))
    out.append(case("ilp", "graphs", 0, [A], [], [T("g1", 0, 1003, [(A, 1000)]), T("g1", -1, 2005, [(A, 1000)], parents=[1])], units=U, tag="units_ilp_chain"))
    return out


def _fits_some(dem, caps):
    return any(all(d <= c for d, c in zip(dem, cap)) for cap in caps)


MULTI_CAP_SETS = [
    # one worker that lists r1 under 2-3 ids (quantities 1-2), alone or next to a single-entry worker
    [[[1, 1], 0]], [[[1, 1], 0]], [[[1, 1], 1]], [[[1, 2], 0]], [[[2, 1], 0]], [[[1, 1, 1], 0]], [[[1, 1], [1, 1]]], [[[2, 1], [1]]],
    [[[1, 1], 0], [1, 0]], [[1, 0], [[1, 1], 0]], [[[1, 2], 1], [1, 1]], [[[1, 1], 0], [[1, 1], 1]], [[0, 1], [[1, 1, 1], 0]],
]


def generate(policy, mode, n, r, max_tasks, multi=False):
    """n seeded-random instances of one policy / mode inside the bound.  multi: workers that
    list one resource name under several ids, capacity-bound on that name (deadlines mostly
    too tight to serialise), a part of the demands pinned to specific ids."""
    cap_sets = [[[1, 0]], [[2, 0]], [[1, 1]], [[2, 1]], [[1, 0], [1, 0]], [[2, 0], [1, 0]], [[1, 0], [0, 1]], [[1, 1], [1, 0]], [[2, 1], [1, 1]]]
    dems = [[1, 0], [1, 0], [2, 0], [0, 1], [1, 1]]
    if multi:
        cap_sets = MULTI_CAP_SETS
        dems = [[1, 0], [1, 0], [2, 0], [2, 0], [0, 1], [1, 1], [3, 0]]
    out = []
    while len(out) < n:
        now = r.choice([0, 0, 2, 3])
        inst_caps = r.choice(cap_sets)
        caps = _tots(inst_caps)  # units per worker and resource name
        # running occupants (no more than fit)
        occ = []
        free = [list(c) for c in caps]
        for _ in range(r.choice([0, 0, 1, 1, 2])):
            w = r.randrange(len(caps))
            cand = [d for d in dems if all(x <= f for x, f in zip(d, free[w])) and any(d)]
            if not cand:
                continue
            d = r.choice(cand)
            free[w] = [f - x for f, x in zip(free[w], d)]
            rem = r.choice([1, 2, 3, 4])
            occ.append(O(w + 1, d, rem, rem + (r.choice([0, 0, 0, 1, 2]) if now > 0 else 0)))
        ntasks = r.randint(2 if multi else 1, max_tasks)
        if policy == "tsg" and ntasks + len(occ) > 5:
            # keep the TetriSched-Gurobi objective (<= 2 per task / occupant) below 10 so
            # that the 10 % relative gap cannot hide one task
            occ = occ[: 5 - ntasks]
        tasks, g = [], 0

        def pin_some(sl):
            """ask for a part of the demand with a specific id of some worker's instances"""
            out_ = []
            for d, rt in sl:
                pin = [[] for _ in d]
                if multi and r.random() < 0.25:
                    ks = [k for k, q in enumerate(d) if q > 0 and any(isinstance(cap[k], list) for cap in inst_caps)]
                    if ks:
                        k = r.choice(ks)
                        qs = r.choice([cap[k] for cap in inst_caps if isinstance(cap[k], list)])
                        i = r.randrange(len(qs))
                        pin[k] = [0] * i + [r.choice([1, min(d[k], qs[i])])]
                out_.append((d, rt, pin))
            return out_

        def strat_list():
            return pin_some(strat_list0()) if multi else strat_list0()

        def strat_list0():
            if r.random() < 0.35:
                # a fast (wide) and a slow (narrow) strategy with clearly different runtimes
                wide = [x for x in ([2, 0], [1, 1], [1, 0], [0, 1]) if _fits_some(x, caps)]
                narrow = [x for x in ([1, 0], [0, 1]) if _fits_some(x, caps)]
                if wide and narrow:
                    f = r.choice([1, 2, 2, 3])
                    pair = [(r.choice(wide[:2]), f), (r.choice(narrow), f + r.choice([2, 3, 4]))]
                    r.shuffle(pair)
                    return pair
            k = r.choice([1, 1, 2])
            sl = []
            for _ in range(k):
                d = r.choice(dems)
                if not _fits_some(d, caps) and r.random() < 0.8:
                    d = r.choice([x for x in dems if _fits_some(x, caps)])
                st = (d, r.choice([1, 1, 2, 2, 3, 4]))
                if st not in sl:
                    sl.append(st)
            return sl

        def deadline(rt, base, sl=()):
            kinds = ["hopeless", "tight", "tight", "tight", "mid", "mid", "mid", "loose", "loose"]
            if multi:
                kinds = ["hopeless", "tight", "tight", "tight", "tight", "tight", "tight", "mid", "mid", "loose"]
            if len({x[1] for x in sl}) > 1:  # rt is the fastest runtime: often only the faster strategy meets the deadline
                kinds = ["hopeless", "tight", "tight", "tight", "tight", "tight", "mid", "mid", "loose"]
            kind = r.choice(kinds)
            if kind == "hopeless":
                d = base + rt - r.choice([1, 2])
            elif kind == "tight":
                d = base + rt + r.choice([0, 1, 2])
            elif kind == "mid":
                d = base + rt + r.choice([3, 4, 5])
            else:
                d = now + 12
            return max(0, min(d, now + 12))

        while len(tasks) < ntasks:
            g += 1
            room = ntasks - len(tasks)
            shapes = ["single", "single", "single"]
            if room >= 2:
                shapes += ["pair"]
            if mode == "tasks":
                shapes += ["head"]
            else:
                if room >= 2:
                    shapes += ["chain2", "chain2"]
                if room >= 3:
                    shapes += ["chain3"]
                if occ and not any(t["occParents"] for t in tasks):
                    shapes += ["occchild"]
            shape = r.choice(shapes)
            gname = f"g{g}"
            if shape in ("single", "head", "pair"):
                for _ in range(2 if shape == "pair" else 1):
                    sl = strat_list()
                    rt = min(x[1] for x in sl)
                    tasks.append(T(gname, r.randint(0, now), deadline(rt, now, sl), sl, virtual_child=(shape == "head")))
            elif shape in ("chain2", "chain3"):
                base, first = now, len(tasks) + 1
                for k in range(2 if shape == "chain2" else 3):
                    sl = strat_list()
                    rt = min(x[1] for x in sl)
                    rel = r.randint(0, now) if k == 0 else r.choice([-1, -1, -1, now + 2, now + 4])
                    tasks.append(T(gname, rel, deadline(rt, base, sl), sl, parents=[] if k == 0 else [first + k - 1]))
                    base += rt + 1
            else:  # child of a running occupant
                oi = r.randrange(len(occ))
                occ[oi]["graph"] = gname
                sl = strat_list()
                rt = min(x[1] for x in sl)
                tasks.append(T(gname, -1, deadline(rt, now + occ[oi]["rem"] + 1, sl), sl, occ_parents=[oi + 1]))
        # a previously SCHEDULED task that must stay placed (no retraction)
        if r.random() < 0.12:
            cand = [i for i, t in enumerate(tasks) if sum(1 for u in tasks if u["graph"] == t["graph"]) == 1 and not t["occParents"]
                    and not t["virtualChild"] and all(all(d <= c for d, c in zip(s["dem"], cap)) for s in t["strats"] for cap in caps)
                    and not any(any(x) for s in t["strats"] for x in s["pin"])]
            if cand:
                i = r.choice(cand)
                si = r.randrange(len(tasks[i]["strats"]))
                w = r.randint(1, len(caps))
                after = max([o["full"] for o in occ if o["w"] == w] + [0])
                tasks[i]["must"] = {"w": w, "s": si + 1, "start": now + after + r.randint(1, 3)}
                end = tasks[i]["must"]["start"] + tasks[i]["strats"][si]["rt"]
                if r.random() < 0.8 and end <= now + 12:  # mostly a previous placement that met the deadline
                    tasks[i]["deadline"] = max(tasks[i]["deadline"], end)
        disc, pa = 1, -1
        if policy != "ilp":
            disc = r.choice([1, 1, 2, 3])
            pa = r.choice([-1, -1, r.randint(4, 10)])
        out.append(case(policy, mode, now, inst_caps, occ, tasks, disc, pa, tag="gen_multi" if multi else "gen"))
    return out


# ---------------------------------------------------------------------------
# real objects


def _request(dem, pin=None):
    """the request vector: per resource name the unpinned part under the `any` id, the pinned
    parts under their specific ids"""
    N = ns()
    vec = {}
    for k, q in enumerate(dem):
        pk = pin[k] if pin else []
        if q - sum(pk) > 0:
            vec[N.Resource(name=RES[k], _id="any")] = q - sum(pk)
        for i, x in enumerate(pk):
            if x > 0:
                vec[N.Resource(name=RES[k], _id=str(i))] = x
    return N.Resources(resource_vector=vec)


def _et(v, unit=None):
    """EventTime of v microseconds, expressed in the given unit"""
    N = ns()
    if unit in (None, "US"):
        return us(v)
    f = {"MS": 1000, "S": 10**6}[unit]
    if v % f:
        raise tlc.TLCMachineryError(f"{v}us is not a whole number of {unit}")
    return N.EventTime(v // f, getattr(N.EventTime.Unit, unit))


def _worker_vector(cap):
    N = ns()
    vec = {}
    for k, c in enumerate(cap):
        if isinstance(c, list):
            for i, q in enumerate(c):
                vec[N.Resource(name=RES[k], _id=str(i))] = q
        elif c > 0:
            vec[N.Resource(name=RES[k])] = c
    return vec


def build(inst):
    """Real Workload / WorkerPools for the instance: occupants are RUNNING on their
    workers (placed, started, stepped to their remaining time), `must` tasks are
    SCHEDULED, sources RELEASED, other tasks VIRTUAL."""
    N = ns()
    now = inst["now"]
    units = inst.get("units", {})
    workers = []
    for wi, cap in enumerate(inst["caps"]):
        workers.append(N.Worker(name=f"w{wi+1}", resources=N.Resources(resource_vector=_worker_vector(cap))))
    pool = N.WorkerPool(name="pool", workers=workers)
    graphs, occ_tasks, tasks = {}, [], []
    for oi, o in enumerate(inst["occ"]):
        st = N.ExecutionStrategy(resources=_request(o["dem"], o.get("pin")), batch_size=1, runtime=us(o["full"]))
        prof = N.WorkProfile(name=f"o{oi+1}_p", execution_strategies=N.ExecutionStrategies([st]))
        started = now - (o["full"] - o["rem"])
        t = N.Task(
            name=f"o{oi+1}", task_graph=o["graph"], job=N.Job(name=f"o{oi+1}", profile=prof), profile=prof,
            deadline=us(now + o["rem"] + 2), timestamp=0, release_time=us(min(started, 0)),
        )
        t.release(us(min(started, 0)))
        pl = N.Placement.create_task_placement(
            task=t, placement_time=us(started), worker_pool_id=pool.id, worker_id=workers[o["w"] - 1].id, execution_strategy=st
        )
        t.schedule(us(started), pl)
        if not pool.place_task(t, execution_strategy=st, worker_id=workers[o["w"] - 1].id):
            raise tlc.TLCMachineryError(f"could not place occupant {o}")
        t.start(us(started))
        if now > started:
            t.step(us(started), us(now - started))
        if t.remaining_time.to(N.EventTime.Unit.US).time != o["rem"] or t.state != N.TaskState.RUNNING:
            raise tlc.TLCMachineryError(f"occupant {o} has remaining time {t.remaining_time}")
        occ_tasks.append(t)
        graphs.setdefault(o["graph"], {})[t] = []
    for ti, t in enumerate(inst["tasks"]):
        sts = [N.ExecutionStrategy(resources=_request(s["dem"], s.get("pin")), batch_size=1, runtime=_et(s["rt"], units.get("rt"))) for s in t["strats"]]
        prof = N.WorkProfile(name=f"t{ti+1}_p", execution_strategies=N.ExecutionStrategies(sts))
        task = N.Task(
            name=f"t{ti+1}", task_graph=t["graph"], job=N.Job(name=f"t{ti+1}", profile=prof), profile=prof,
            deadline=_et(t["deadline"], units.get("deadline")), timestamp=0, release_time=us(t["release"]),
        )
        tasks.append(task)
        graphs.setdefault(t["graph"], {})[task] = []
    for ti, t in enumerate(inst["tasks"]):
        for p in t["parents"]:
            graphs[t["graph"]][tasks[p - 1]].append(tasks[ti])
        for o in t["occParents"]:
            graphs[t["graph"]][occ_tasks[o - 1]].append(tasks[ti])
        if t.get("virtualChild"):
            prof = tasks[ti].profile
            child = N.Task(
                name=f"t{ti+1}c", task_graph=t["graph"], job=N.Job(name=f"t{ti+1}c", profile=prof), profile=prof,
                deadline=us(t["deadline"] + 5), timestamp=0, release_time=us(-1),
            )
            graphs[t["graph"]][child] = []
            graphs[t["graph"]][tasks[ti]].append(child)
    for ti, t in enumerate(inst["tasks"]):
        if not t["parents"] and not t["occParents"]:
            tasks[ti].release(us(t["release"]))
        if t.get("must"):
            m = t["must"]
            sts = list(tasks[ti].available_execution_strategies)
            pl = N.Placement.create_task_placement(
                task=tasks[ti], placement_time=us(m["start"]), worker_pool_id=pool.id,
                worker_id=workers[m["w"] - 1].id, execution_strategy=sts[m["s"] - 1],
            )
            tasks[ti].schedule(us(now), pl)
    tgs = {g: N.TaskGraph(name=g, tasks=d) for g, d in graphs.items()}
    return N.Workload.from_task_graphs(tgs), N.WorkerPools([pool]), workers, tasks, tgs


def make_scheduler(c):
    """A fresh planner per call (the ILP keeps state between calls)."""
    import schedulers

    N = ns()
    zero = N.EventTime.zero()
    graphs = c["mode"] == "graphs"
    has_must = any(t.get("must") for t in c["inst"]["tasks"])
    if c["policy"] == "ilp":
        return schedulers.ILPScheduler(
            preemptive=False, runtime=zero, lookahead=zero, enforce_deadlines=True, release_taskgraphs=graphs, goal="max_goodput"
        )
    kw = dict(runtime=zero, enforce_deadlines=True, goal="max_goodput", time_discretization=_et(c["disc"], c["inst"].get("units", {}).get("disc")),
              plan_ahead=us(c["plan_ahead"]))
    if has_must:
        kw["retract_schedules"] = False
    if c["policy"] == "tsg":
        return schedulers.TetriSchedGurobiScheduler(release_taskgraphs=graphs, **kw)
    return schedulers.TetriSchedCPLEXScheduler(**kw)


_CAPTURED = []


@contextlib.contextmanager
def capture_models():
    """Wrap gurobipy.Model.optimize in this process to keep the optimised models."""
    import gurobipy as gp

    orig = gp.Model.optimize
    del _CAPTURED[:]

    def optimize(self, *a, **k):
        r = orig(self, *a, **k)
        _CAPTURED.append(self)
        return r

    gp.Model.optimize = optimize
    try:
        yield _CAPTURED
    finally:
        gp.Model.optimize = orig


def realize(c):
    """Call the real planner on the case.  Returns the record (or a skip reason)."""
    N = ns()
    inst = c["inst"]
    rec = {k: c[k] for k in ("policy", "mode", "disc", "plan_ahead", "tag")}
    rec["inst"] = inst
    info = {}
    wl, wps, workers, tasks, tgs = build(inst)
    sch = make_scheduler(c)
    now = us(inst["now"])
    offered = wl.get_schedulable_tasks(
        time=now, lookahead=sch.lookahead, preemption=False, retract_schedules=sch.retract_schedules, worker_pools=wps,
        policy=sch.policy, branch_prediction_accuracy=sch.branch_prediction_accuracy, release_taskgraphs=sch.release_taskgraphs,
    )
    idx = {id(t): i for i, t in enumerate(tasks)}
    off = sorted(idx[id(t)] for t in offered if id(t) in idx)
    expect = [i for i, t in enumerate(inst["tasks"]) if not (t.get("must") and not sch.retract_schedules)]
    if off != expect or len(offered) != len(off):
        return dict(rec, skip=f"offered {[t.unique_name for t in offered]}, expected task indices {expect}")
    for ti, t in enumerate(inst["tasks"]):
        t["sink"] = bool(tgs[t["graph"]].is_sink_task(tasks[ti]))
    wix = {w.id: i + 1 for i, w in enumerate(workers)}
    ans = [{"placed": False, "w": 0, "s": 0, "start": 0} for _ in tasks]
    t0 = time.time()
    try:
        pls = sch.schedule(now, wl, wps)
    except Exception as ex:  # no answer: not C14's business (C10), counted
        return dict(rec, skip=f"raised {type(ex).__name__}: {ex}"[:300], raised=True)
    info["solve_s"] = round(time.time() - t0, 3)
    for pl in pls:
        ti = idx.get(id(pl.task))
        if ti is None:
            info.setdefault("foreign", []).append(pl.task.unique_name)
            continue
        if pl.placement_type == N.Placement.PlacementType.PLACE_TASK and pl.is_placed():
            sts = list(tasks[ti].available_execution_strategies)
            si = next((k + 1 for k, x in enumerate(sts) if x is pl.execution_strategy), 0)
            ans[ti] = {"placed": True, "w": wix.get(pl.worker_id, 0), "s": si, "start": pl.placement_time.to(N.EventTime.Unit.US).time}
        elif pl.placement_type == N.Placement.PlacementType.CANCEL_TASK:
            info.setdefault("cancelled", []).append(ti + 1)
    # a SCHEDULED task the planner did not decide again keeps its previous placement
    returned = {idx.get(id(pl.task)) for pl in pls}
    for ti, t in enumerate(inst["tasks"]):
        if t.get("must") and ti not in returned:
            ans[ti] = {"placed": True, "w": t["must"]["w"], "s": t["must"]["s"], "start": t["must"]["start"]}
            info.setdefault("kept_previous_placement", []).append(ti + 1)
    rec["ans"] = ans
    rec["info"] = info
    rec["_sids"] = [[x.id for x in t.available_execution_strategies] for t in tasks]
    return rec


def _realize_chunk(cases):
    return [realize(c) for c in cases]


# ---------------------------------------------------------------------------
# records -> TLC


def tlc_record(rec, rid, flags=(), kind=None):
    """The record as PlanSpace sees it under the statement-level conventions of the
    policy, optionally with conventions of the pinned model switched on (`flags`)."""
    inst, pol = rec["inst"], rec["policy"]
    now = inst["now"]
    full = "occFull" in flags
    nopin = [[] for _ in RES]
    occ = [
        {"w": o["w"], "dem": o["dem"], "pin": o.get("pin") or nopin, "hold": o["full"] if full else o["rem"],
         # ILP: child >= now + (strategy runtime) + 1; TetriSched-Gurobi: now + remaining_time + 1
         "prec": o["full"] if (full and pol == "ilp") else o["rem"]}
        for o in inst["occ"]
    ]
    dls = [t["deadline"] for t in inst["tasks"]]
    if pol == "ilp":
        conv = {"startLB": now + 1, "grid": 1, "horizon": max(dls), "gap": 1, "precRt": "chosen"}
    else:
        # plan_ahead defaults to the greatest deadline (an absolute time used as a duration)
        pa = rec["plan_ahead"] if rec["plan_ahead"] >= 0 else max(dls + [now + o["rem"] + 2 for o in inst["occ"]])
        conv = {"startLB": now, "grid": rec["disc"], "horizon": now + pa, "gap": 0, "precRt": "slowest"}
    conv.update(precGap=1, pairSum="pairSum" in flags, unplacedTimed="unplacedTimed" in flags, nameCap="nameCap" in flags)
    # per worker and resource name the quantities of its instances (position = id + 1; an entry
    # listed without an id sits behind the ids: nothing can pin it); the spec sums them
    caps = [[list(c) if isinstance(c, list) else ([0] * MAXIDS + [c] if c > 0 else []) for c in cap] for cap in inst["caps"]]
    gix = {}
    tasks = [
        {"graph": gix.setdefault(t["graph"], len(gix) + 1), "release": t["release"], "deadline": t["deadline"],
         "strats": [{"dem": s_["dem"], "pin": s_.get("pin") or nopin, "rt": s_["rt"]} for s_ in t["strats"]], "parents": t["parents"], "occParents": t["occParents"], "must": bool(t.get("must")), "sink": bool(t["sink"])}
        for t in inst["tasks"]
    ]
    k = kind or ("opt" if pol == "ilp" else ("ext" if "rewardOnly" in flags else "max"))
    return {"id": rid, "kind": k, "dump": False, "mode": rec["mode"], "now": now, "caps": caps, "occ": occ, "tasks": tasks, "conv": conv, "ans": rec.get("ans") or [{"placed": False, "w": 0, "s": 0, "start": 0} for _ in tasks]}


@contextlib.contextmanager
def _tmp_in(scratch):
    old = tempfile.tempdir
    tempfile.tempdir = scratch
    try:
        yield
    finally:
        tempfile.tempdir = old


def run_batch(trecs, timeout=3000, invariants=("BatchChecked",), constraint="CanImprove"):
    """One TLC run (one JVM, one worker) over the records.  Returns
    (findings {id: [(clause, witness)]}, complete plans per id, TLC result)."""
    if not trecs:
        return {}, {}, None
    with Scratch() as scratch:
        path = os.path.join(scratch, "records.json")
        with open(path, "w") as f:
            json.dump(trecs, f)
        mod, cf = mcgen.write_mc(
            scratch, "PlanSpace", {"Records": Raw(f'JsonDeserialize("{path}")'), "NRecords": len(trecs)}, name="MC_PlanSpace",
            init_next=("Init", "Next"), invariants=list(invariants), constraint=constraint,
            extra_defs="ASSUME RegInit\nPost == StatsLine\n", postcondition="Post", extends="Json",
        )
        with _tmp_in(scratch):
            r = tlc.run_tlc(mod, cf, workers=1, java_opts=JAVA_OPTS, coverage=False, timeout=timeout)
    finds, stats = {}, {}
    for line in r.stdout.splitlines():
        if line.startswith('"@@stats '):
            v = tlaval.parse(line[len('"@@stats '):-1])
            stats = {trecs[i]["id"]: n for i, n in enumerate(v)}
        elif line.startswith('"@@states '):
            v = tlaval.parse(line[len('"@@states '):-1])
            r.states_per_record = {trecs[i]["id"]: n for i, n in enumerate(v)}
        elif line.startswith('"@@ '):
            rid, clause, wit = line[4:-1].split(" ", 2)
            try:
                w = tlaval.parse(wit)
            except tlaval.ParseError:
                w = wit
            finds.setdefault(int(rid), []).append((clause, w))
    return finds, stats, r


def _batch_job(trecs, timeout):
    finds, stats, r = run_batch(trecs, timeout)
    if not r.ok:
        raise tlc.TLCMachineryError(f"PlanSpace batch failed: {r.violation_kind} {r.violation_name}\n{r.stdout[-3000:]}")
    if not stats:
        raise tlc.TLCMachineryError(f"no statistics line from the PlanSpace batch\n{r.stdout[-2000:]}")
    return finds, stats, {"distinct": r.distinct, "generated": r.generated, "depth": r.depth, "wall_s": r.wall_s,
                          "states": getattr(r, "states_per_record", {})}


def _cost(tr):
    """rough size of the plan space of a record (for balancing the JVMs)"""
    if tr["kind"] == "enum":
        return 2000
    if tr["kind"] == "max":
        return 50
    c = tr["conv"]
    slots = max(1, (c["horizon"] - c["startLB"]) // c["grid"] + 1)
    n = 1
    for t in tr["tasks"]:
        n *= 1 + min(slots, max(0, t["deadline"] - c["startLB"])) * len(t["strats"]) * len(tr["caps"])
    return min(n, 10**7)


def check_records(trecs, jvms, timeout=3000):
    """Split the records over `jvms` JVMs (balanced by estimated plan-space size)."""
    if not trecs:
        return {}, {}, []
    order = sorted(trecs, key=_cost, reverse=True)
    bins = [[0, []] for _ in range(max(1, min(jvms, len(order))))]
    for tr in order:
        b = min(bins, key=lambda x: x[0])
        b[0] += _cost(tr) + 200
        b[1].append(tr)
    outs = parallel(_batch_job, [(b[1], timeout) for b in bins if b[1]], procs=jvms)
    finds, stats, runs = {}, {}, []
    for f, s, run in outs:
        finds.update(f)
        stats.update(s)
        runs.append(run)
    return finds, stats, runs


# ---------------------------------------------------------------------------
# reproducing a violation on the captured solver model


def _plan_text(rec, plan):
    out = []
    for i, p in enumerate(plan):
        if p["placed"]:
            s = rec["inst"]["tasks"][i]["strats"][p["s"] - 1]
            pin = f", ids {s['pin']}" if any(any(x) for x in s.get("pin", [])) else ""
            out.append(f"t{i+1}->w{p['w']} strategy {p['s']} (dem {s['dem']}{pin}, rt {s['rt']}) at {p['start']}")
        else:
            out.append(f"t{i+1} unplaced")
    return "; ".join(out)


class ModelProbe:
    """Ask the planner's own (captured) Gurobi model about a plan: fix the placement
    and start variables of a copy, re-optimise, restore."""

    def __init__(self, rec, model, sids, copy=True):
        self.rec, self.inst = rec, rec["inst"]
        self.f = model.copy() if copy else model
        self.f.Params.OutputFlag = 0
        self.f.Params.MIPGap = 0
        self.f.Params.Threads = 2
        self.place = {}  # task index -> {(w, s[, start]): var}
        self.start = {}
        self.note = None
        byname = {v.VarName: v for v in self.f.getVars()}
        for ti, t in enumerate(self.inst["tasks"]):
            name = f"t{ti+1}@{t['graph']}"
            self.place[ti] = {}
            if rec["policy"] == "ilp":
                if len({x["rt"] for x in t["strats"]}) < len(t["strats"]):
                    self.note = "two strategies with equal runtimes: ILP variable names are ambiguous, model not asked"
                for wi in range(len(self.inst["caps"])):
                    for si, x in enumerate(t["strats"]):
                        v = byname.get(f"{name}_placed_on_w{wi+1}_with_batch_size_1_runtime_{x['rt']}")
                        if v is not None:
                            self.place[ti][(wi + 1, si + 1)] = v
                if f"{name}_start" in byname:
                    self.start[ti] = byname[f"{name}_start"]
            else:
                pat = re.compile(re.escape(name) + r"_placed_at_Worker_(\d+)_on_Time_(\d+)_with_strategy_(.*)$")
                for vn, v in byname.items():
                    mm = pat.match(vn)
                    if mm and mm.group(3) in sids[ti]:
                        self.place[ti][(int(mm.group(1)), sids[ti].index(mm.group(3)) + 1, int(mm.group(2)))] = v
        self.saved = {v: (v.LB, v.UB) for d in self.place.values() for v in d.values()}
        self.saved.update({v: (v.LB, v.UB) for v in self.start.values()})

    def ask(self, plan, iis=False):
        """-> ("feasible", objective) | ("infeasible", iis names) | ("novar", None) | ("skipped", why)"""
        from gurobipy import GRB

        if self.note:
            return "skipped", self.note
        for v, (lb, ub) in self.saved.items():
            v.LB, v.UB = lb, ub
        for ti, p in enumerate(plan):
            key = (p["w"], p["s"]) if self.rec["policy"] == "ilp" else (p["w"], p["s"], p["start"])
            if p["placed"] and key not in self.place[ti]:
                return "novar", None
            for k, v in self.place[ti].items():
                v.LB = v.UB = 1 if (p["placed"] and k == key) else 0
            if p["placed"] and ti in self.start:
                if not (self.saved[self.start[ti]][0] <= p["start"] <= self.saved[self.start[ti]][1]):
                    return "infeasible", ["bounds of the start variable"]
                self.start[ti].LB = self.start[ti].UB = p["start"]
        self.f.optimize()
        if self.f.Status in (GRB.INFEASIBLE, GRB.INF_OR_UNBD):
            names = []
            if iis:
                try:
                    self.f.computeIIS()
                    names = [c.ConstrName for c in self.f.getConstrs() if c.IISConstr][:10]
                    names += [q.QCName for q in self.f.getQConstrs() if q.IISQConstr][:6]
                    names += [g.GenConstrName for g in self.f.getGenConstrs() if g.IISGenConstr][:10]
                except Exception:  # noqa
                    pass
            return "infeasible", names
        if self.f.SolCount:
            return "feasible", round(self.f.ObjVal, 4)
        return "skipped", f"solver status {self.f.Status}"


def solve_captured(rec):
    """Solve the case again with the real planner and keep its Gurobi model."""
    with capture_models() as cap:
        again = realize(rec)
        models = list(cap)
    return again, (models[-1] if models else None)


def fix_check(rec, plan):
    """Reproduce a violation: solve the instance again, then ask the planner's own
    model about TLC's witness.  Returns a dict for the violation detail."""
    if rec["policy"] == "tsc":
        again = realize(rec)
        return {"resolved_same_answer": again.get("ans") == rec["ans"], "note": "CPLEX model not captured"}
    again, m = solve_captured(rec)
    out = {"resolved_same_answer": again.get("ans") == rec["ans"]}
    if m is None:
        return dict(out, note="no model was optimised (nothing offered)")
    out["model_status"] = int(m.Status)
    out["model_objective"] = round(m.ObjVal, 4) if m.SolCount else None
    verdict, info = ModelProbe(rec, m, again["_sids"]).ask(plan, iis=True)
    if verdict == "feasible":
        out["witness_in_model"] = f"feasible with objective {info}"
    elif verdict == "infeasible":
        out["witness_in_model"] = "infeasible: the planner's own constraints exclude the plan"
        out["iis"] = info
    elif verdict == "novar":
        out["witness_in_model"] = "no variable: the placement is not offered by the model"
    else:
        out["note"] = info
    return out


# ---------------------------------------------------------------------------
# (M) the plan space itself

ENUM_CASES = [
    # two tasks, one worker, ILP conventions
    case("ilp", "tasks", 0, [[1, 0]], [], [T("g1", 0, 6, [([1, 0], 2)]), T("g2", 0, 6, [([1, 0], 2)])], tag="enum_ilp_2x1"),
    # chain + single on two workers with an occupant, ILP conventions
    case("ilp", "graphs", 1, [[2, 0], [1, 1]], [O(1, [1, 0], 2)],
         [T("g1", 0, 8, [([1, 0], 2), ([2, 0], 1)]), T("g1", -1, 9, [([0, 1], 2)], parents=[1]), T("g2", 1, 6, [([1, 0], 3)])], tag="enum_ilp_chain"),
    # the same shapes in TetriSched's space (slots now + 2k, touching allowed)
    case("tsg", "graphs", 1, [[2, 0], [1, 1]], [O(1, [1, 0], 2)],
         [T("g1", 0, 8, [([1, 0], 2), ([2, 0], 1)]), T("g1", -1, 9, [([0, 1], 2)], parents=[1]), T("g2", 1, 6, [([1, 0], 3)])], disc=2, tag="enum_tsg_chain"),
    case("tsc", "tasks", 0, [[1, 0]], [], [T("g1", 0, 6, [([1, 0], 2)]), T("g2", 0, 6, [([1, 0], 2)])], disc=3, plan_ahead=6, tag="enum_tsc_2x1"),
]


def _sinks(c):
    """sink flags without building real objects (enum cases are not given to a planner)"""
    ts = c["inst"]["tasks"]
    for i, t in enumerate(ts):
        t["sink"] = not t.get("virtualChild") and not any((i + 1) in u["parents"] for u in ts)
    return c


def enum_records():
    return [tlc_record(_sinks(c), i + 1, kind="enum") for i, c in enumerate(ENUM_CASES)]


def absorb_enum(res, trecs, stats, runs):
    """(M): per fixed instance, the number of states TLC reached = feasible partial plans"""
    states = {}
    for run in runs:
        states.update(run["states"])
    out = []
    for tr, c in zip(trecs, ENUM_CASES):
        n, k = states.get(tr["id"], 0), stats.get(tr["id"], 0)
        agg = tlc.TLCResult(ok=True, stdout="")
        agg.distinct = agg.generated = n
        agg.depth = len(tr["tasks"]) + 1
        agg.coverage = {"Init": (1, 1), "PlaceNext": (n - 1 - _skips(tr, n, k), n - 1 - _skips(tr, n, k)), "Skip": (_skips(tr, n, k), _skips(tr, n, k))}
        res.add_tlc(f"PlanSpace/{c['tag']} (kind enum, inside the record batch; transition counts follow from the tree shape)", agg)
        res.extra["tlc_runs"][-1]["never_taken"] = []
        out.append({"instance": c["tag"], "policy": c["policy"], "feasible_partial_plans": n, "complete_feasible_plans": k})
        if n < 10 or k < 5:
            raise tlc.TLCMachineryError(f"PlanSpace enumeration of {c['tag']} is vacuous: {out[-1]}")
    res.extra["plan_space_enumeration"] = out


def _skips(tr, n, k):
    """the plan space is a tree: every non-root state has one incoming edge; in a tree
    whose inner nodes all have exactly one Skip edge the Skip edges number (#inner nodes)
    = states - complete plans"""
    return n - k


# ---------------------------------------------------------------------------
# the pinned-model conventions are the planner's: decision spaces compared exhaustively

EQ_CASES = [
    # progressed occupant + two tasks (ILP: occupant charged its full runtime, pair sums)
    case("ilp", "tasks", 2, [[2, 0]], [O(1, [1, 0], 2, 3)], [T("g1", 0, 7, [([1, 0], 2)]), T("g2", 1, 6, [([2, 0], 1)])], tag="eq_ilp_occ"),
    # cross-worker coupling of the pair sums + a hopeless-after-release pattern
    case("ilp", "tasks", 0, [[1, 0], [1, 0]], [O(2, [1, 0], 3)], [T("g1", 0, 6, [([1, 0], 4)]), T("g2", 0, 3, [([1, 0], 1)])], tag="eq_ilp_cross"),
    # chain + single, two strategies (ILP: chosen runtime + 1; unplaced child still timed)
    case("ilp", "graphs", 0, [[2, 0]], [], [T("g1", 0, 4, [([1, 0], 2), ([2, 0], 1)]), T("g1", -1, 5, [([1, 0], 1)], parents=[1]), T("g2", 0, 4, [([1, 0], 3)])], tag="eq_ilp_chain"),
    # TetriSched-Gurobi: chain (slowest runtime + 1), two workers, progressed occupant, slots now + 2k
    case("tsg", "graphs", 1, [[2, 0], [1, 1]], [O(1, [1, 0], 2, 3)],
         [T("g1", 0, 8, [([1, 0], 2), ([2, 0], 1)]), T("g1", -1, 9, [([0, 1], 2)], parents=[1]), T("g2", 1, 6, [([1, 0], 3)])], disc=2, tag="eq_tsg_chain"),
    # a worker that lists r1 under two ids, a RUNNING occupant on one unit, one demand with a specific id: the models have
    # one capacity row per (worker, resource name) with the SUM of the instances on the right-hand side
    case("ilp", "tasks", 0, [[[1, 1], 0]], [O(1, [1, 0], 2)], [T("g1", 0, 5, [([1, 0], 2, [[0, 1], []])]), T("g2", 0, 5, [([2, 0], 1), ([1, 0], 3)])], tag="eq_ilp_multi"),
    case("tsg", "tasks", 0, [[[1, 2], 0], [1, 0]], [O(1, [1, 0], 2)], [T("g1", 0, 6, [([3, 0], 2), ([1, 0], 4)]), T("g2", 0, 4, [([2, 0], 2, [[0, 2], []])])], disc=2, tag="eq_tsg_multi"),
]


def _pinned_model_flags(policy):
    """the conventions of the planners' own models (decision-space equality only): the named
    over-tight ones + capacity rows per (worker, resource name), ids not distinguished"""
    return tuple(f for f in FLAGS[policy] if f != "rewardOnly") + ("nameCap",)


def _plan_key(plan):
    return tuple((p["w"], p["s"], p["start"]) if p["placed"] else None for p in plan)


def _options(rec):
    """per task: unplaced, or any worker x any strategy x any start in now .. deadline
    (TetriSched: on the slot grid, up to the horizon)"""
    inst = rec["inst"]
    step = 1 if rec["policy"] == "ilp" else rec["disc"]
    last = None if rec["policy"] == "ilp" else tlc_record(rec, 0)["conv"]["horizon"]
    per = []
    for t in inst["tasks"]:
        opts = [{"placed": False, "w": 0, "s": 0, "start": 0}]
        for w in range(1, len(inst["caps"]) + 1):
            for s in range(1, len(t["strats"]) + 1):
                for st in range(inst["now"], min(t["deadline"], last if last is not None else t["deadline"]) + 1, step):
                    opts.append({"placed": True, "w": w, "s": s, "start": st})
        per.append(opts)
    return per


def _ncandidates(rec):
    n = 1
    for o in _options(rec):
        n *= len(o)
    return n


def _candidates(rec):
    """every syntactic plan of a small case"""
    import itertools

    return itertools.product(*_options(rec))


def _pool_plans(rec, model, sids, horizon):
    """all solutions of the TetriSched-Gurobi model (solution pool), projected to plans"""
    from gurobipy import GRB

    f = model.copy()
    f.Params.OutputFlag = 0
    f.Params.Threads = 2
    f.setObjective(0)
    f.Params.PoolSearchMode = 2
    f.Params.PoolSolutions = 2000000
    for v in f.getVars():  # the start_time of an unplaced task is free: bound it
        if v.VType == GRB.INTEGER and v.UB > 1e6:
            v.UB = horizon
    f.optimize()
    probe = ModelProbe(rec, f, sids, copy=False)
    plans = set()
    for n in range(f.SolCount):
        probe.f.Params.SolutionNumber = n
        plan = []
        for ti in range(len(rec["inst"]["tasks"])):
            hit = [k for k, v in probe.place[ti].items() if v.Xn > 0.5]
            plan.append((hit[0][0], hit[0][1], hit[0][2]) if hit else None)
        plans.add(tuple(plan))
    return plans, f.SolCount


EQ_ID0 = 10**6


def eq_prepare(quick, sample=()):
    """Solve the fixed equality cases (and the sampled records) again, keeping the
    planners' Gurobi models; returns (records, TLC records of kind enum with dump: per
    case one under the pinned-model conventions and one under the statement-level ones)."""
    cases = ([EQ_CASES[0], EQ_CASES[3], EQ_CASES[4], EQ_CASES[5]] if quick else EQ_CASES) + list(sample)
    trecs, recs = [], []
    for c in cases:
        rec, m = solve_captured(c)
        if "skip" in rec or m is None:
            if c["tag"].startswith("eq_"):
                raise tlc.TLCMachineryError(f"equality case {c['tag']}: {rec.get('skip', 'no model')}")
            continue
        rec["_model"] = m
        rec["_eqid"] = EQ_ID0 + 2 * len(recs)
        recs.append(rec)
        flags = _pinned_model_flags(c["policy"])
        for k, fl in enumerate((flags, ())):
            tr = tlc_record(rec, rec["_eqid"] + k, fl, kind="enum")
            tr["dump"] = True
            trecs.append(tr)
    return recs, trecs


def eq_compare(res, recs, finds):
    """The feasible set of the planner's own model (every syntactic plan is fix-checked
    on the captured Gurobi model; one TetriSched case is also enumerated through the
    solution pool) must equal the set of complete plans PlanSpace reaches under the
    pinned-model conventions - on the unchanged tree.  (A tree in which the over-tight
    constraints are repaired equals the statement-level space instead.)"""
    out = []
    agg = {"cases": 0, "equal_pinned_model_conventions": 0, "equal_statement_level_conventions": 0, "equal_neither": 0,
           "syntactic_plans_asked": 0, "feasible_plans": 0, "model_not_asked": 0}
    for rec in recs:
        pinned = {_plan_key(p) for c, p in finds.get(rec["_eqid"], []) if c == "plan"}
        stated = {_plan_key(p) for c, p in finds.get(rec["_eqid"] + 1, []) if c == "plan"}
        probe = ModelProbe(rec, rec["_model"], rec["_sids"])
        if probe.note:
            agg["model_not_asked"] += 1
            continue
        model, asked = set(), 0
        for plan in _candidates(rec):
            asked += 1
            if probe.ask(list(plan))[0] == "feasible":
                model.add(_plan_key(plan))
        entry = {
            "case": rec["tag"], "policy": rec["policy"], "mode": rec["mode"], "syntactic_plans_fix_checked": asked, "plans_in_model": len(model),
            "plans_in_spec_pinned_model_conventions": len(pinned), "plans_in_spec_statement_level": len(stated),
            "equal_pinned": model == pinned, "equal_statement_level": model == stated,
        }
        if rec["tag"] == "eq_tsg_chain":
            flags = _pinned_model_flags(rec["policy"])
            pool, nsol = _pool_plans(rec, rec["_model"], rec["_sids"], tlc_record(rec, 0, flags)["conv"]["horizon"] + 12)
            entry["pool_solutions"] = nsol
            entry["plans_in_pool"] = len(pool)
            entry["pool_equals_fix_checked_set"] = pool == model
        agg["cases"] += 1
        agg["equal_pinned_model_conventions"] += entry["equal_pinned"]
        agg["equal_statement_level_conventions"] += entry["equal_statement_level"]
        agg["syntactic_plans_asked"] += asked
        agg["feasible_plans"] += len(model)
        neither = not entry["equal_pinned"] and not entry["equal_statement_level"]
        agg["equal_neither"] += neither
        if neither:
            entry["inst"] = rec["inst"]
            entry["only_in_spec_pinned"] = [list(map(str, x)) for x in sorted(pinned - model, key=str)[:5]]
            entry["only_in_model"] = [list(map(str, x)) for x in sorted(model - pinned, key=str)[:5]]
            res.notes.append(f"decision spaces differ on {rec['tag']} ({rec['policy']}/{rec['mode']}): the model of this planner is neither PlanSpace's pinned-model space nor the statement-level space")
        if rec["tag"].startswith("eq_") or neither:
            out.append(entry)
    res.extra["decision_space_equality"] = {"summary": agg, "cases": out[:12]}


# ---------------------------------------------------------------------------
# the check


def inst_key(rec):
    d = {k: rec[k] for k in ("policy", "mode", "disc", "plan_ahead", "inst")}
    return hashlib.sha1(json.dumps(d, sort_keys=True).encode()).hexdigest()[:12]


def _subsets(flags):
    """single flags first, then all together"""
    out = [(f,) for f in flags]
    if len(flags) > 1:
        out.append(tuple(flags))
    return out


def run(tier: str) -> CheckResult:
    res = CheckResult("C14", tier)
    res.assumptions = [
        "TLC explores PlanSpace.tla exhaustively per record (branch and bound only cuts plans that cannot beat the answer)",
        "the real planners are called through schedule() on real Task/Workload/WorkerPools objects; answers are read from the returned Placements",
        "decision-space conventions per policy are named constants of the spec (DESIGN §7): ILP integer starts >= max(now+1, release), "
        "closed intervals (gap 1), child >= parent + chosen runtime + 1; TetriSched slots now + k*discretisation <= now + plan_ahead, "
        "occupancy start <= t < start + runtime, child >= parent + slowest runtime + 1; deadlines hard",
        "instances keep the optimum / objective small enough that the 10 % relative MIP gap cannot hide one task or graph",
        "a worker that lists one resource name under several ids owns the sum of the listed quantities; units asked for with the `any` id may come "
        "from any of the instances (Resources.allocate splits them), units asked for with a specific id from that instance only",
    ]
    quick = tier == "quick"
    r = rng("c14")
    cases = directed() + directed_multi(quick) + directed_units()
    per = {"ilp/tasks": 5, "ilp/graphs": 5, "tsg/tasks": 7, "tsg/graphs": 6, "tsc/tasks": 5} if quick else \
        {"ilp/tasks": 520, "ilp/graphs": 520, "tsg/tasks": 340, "tsg/graphs": 340, "tsc/tasks": 240}
    for pm, n in per.items():
        pol, mode = pm.split("/")
        cases += generate(pol, mode, n, r, 3 if quick else 4)
    # multi-instance workers (own random stream: the sample above stays what it was)
    rm = rng("c14/multi")
    per_multi = {"ilp/tasks": 4, "ilp/graphs": 3, "tsg/tasks": 4, "tsg/graphs": 3, "tsc/tasks": 3} if quick else \
        {"ilp/tasks": 160, "ilp/graphs": 160, "tsg/tasks": 120, "tsg/graphs": 120, "tsc/tasks": 80}
    for pm, n in per_multi.items():
        pol, mode = pm.split("/")
        cases += generate(pol, mode, n, rm, 3 if quick else 4, multi=True)
    jvms = 6 if quick else 12
    # --- the real planners (CPLEX is the slow one: spread over processes)
    t0 = time.time()
    procs = 12
    order = sorted(range(len(cases)), key=lambda i: (cases[i]["policy"] != "tsc", i))  # CPLEX cases spread evenly
    chunks = [order[i::procs] for i in range(procs)]
    parts = parallel(_realize_chunk, [([cases[i] for i in ch],) for ch in chunks if ch], procs=procs)
    byix = {i: x for ch, part in zip([ch for ch in chunks if ch], parts) for i, x in zip(ch, part)}
    recs = [byix[i] for i in range(len(cases))]
    res.extra["planner_wall_s"] = round(time.time() - t0, 1)
    skipped = [x for x in recs if "skip" in x]
    recs = [x for x in recs if "skip" not in x]
    for i, rec in enumerate(recs):
        rec["id"] = i + 1
    res.extra["instances"] = len(cases)
    res.extra["records"] = len(recs)
    res.extra["skipped"] = {"raised": sum(1 for x in skipped if x.get("raised")), "not_offered_as_expected": sum(1 for x in skipped if not x.get("raised"))}
    res.extra["skipped_samples"] = [{"policy": x["policy"], "mode": x["mode"], "why": x["skip"], "inst": x["inst"]} for x in skipped[:4]]
    res.traces_validated = len(recs)
    # --- one TLC pass: every record under the statement-level conventions (id*100) and,
    # to attribute a failure to its cause, under the conventions of the pinned model
    t0 = time.time()
    erecs = enum_records()
    pick = [rec for rec in recs if rec["policy"] in ("ilp", "tsg") and rec["tag"] in ("gen", "gen_multi") and 20 <= _ncandidates(rec) <= 4000]
    r.shuffle(pick)
    qrecs, qtrecs = eq_prepare(quick, pick[: (6 if quick else 150)])
    res.extra["equality_prepare_wall_s"] = round(time.time() - t0, 1)
    t0 = time.time()
    finds, stats, runs = check_records(erecs + qtrecs + [tlc_record(rec, rec["id"] * 100) for rec in recs], jvms)
    _absorb(res, "PlanSpace/records (statement-level conventions)", runs, time.time() - t0)
    absorb_enum(res, erecs, stats, runs)
    t0 = time.time()
    eq_compare(res, qrecs, finds)
    res.extra["equality_compare_wall_s"] = round(time.time() - t0, 1)
    failing = [rec for rec in recs if any(c in ("better", "addable") for c, _ in finds.get(rec["id"] * 100, []))]
    # second pass, failing records only: judged again under the conventions of the pinned model
    variants = []
    for rec in failing:
        for k, fl in enumerate(_subsets(FLAGS[rec["policy"]])):
            if "rewardOnly" in fl and rec["mode"] != "graphs":
                continue
            variants.append((rec, fl, rec["id"] * 100 + k + 1))
    if variants:
        t0 = time.time()
        finds2, _, runs2 = check_records([tlc_record(rec, vid, fl) for rec, fl, vid in variants], jvms)
        finds.update(finds2)
        _absorb(res, "PlanSpace/records (failing records under the attribution variants)", runs2, time.time() - t0)
    outside = [rec for rec in recs if any(c == "answer_outside_space" for c, _ in finds.get(rec["id"] * 100, []))
               and any(a["placed"] and (i + 1) not in rec["info"].get("kept_previous_placement", []) for i, a in enumerate(rec["ans"]))]
    explained = {}
    for rec, fl, vid in variants:
        if rec in failing and rec["id"] not in explained and not any(c in ("better", "addable") for c, _ in finds.get(vid, [])):
            explained[rec["id"]] = fl
    # --- verdicts
    counts = {}
    for rec in recs:
        pm = f"{rec['policy']}/{rec['mode']}"
        c = counts.setdefault(pm, {"records": 0, "some_task_unplaced": 0, "optimal_or_maximal_with_unplaced_tasks": 0, "all_placed": 0,
                                   "violations": 0, "complete_plans_examined": 0, "with_running_occupants": 0, "with_scheduled_task": 0})
        c["records"] += 1
        unplaced = any(not a["placed"] for a in rec["ans"])
        c["some_task_unplaced"] += unplaced
        c["all_placed"] += not unplaced
        bad = rec in failing
        c["violations"] += bad
        c["optimal_or_maximal_with_unplaced_tasks"] += unplaced and not bad
        c["complete_plans_examined"] += stats.get(rec["id"] * 100, 0)
        c["with_running_occupants"] += bool(rec["inst"]["occ"])
        c["with_scheduled_task"] += any(t.get("must") for t in rec["inst"]["tasks"])
    res.extra["per_policy_mode"] = counts
    # instance classes (which answers load a worker beyond every single entry of a name is decided by the spec: NeedsSum)
    classes = {}
    for rec in recs:
        inst = rec["inst"]
        c = classes.setdefault(rec["policy"], {k: 0 for k in (
            "multi_instance_worker", "multi_instance_next_to_single_entry_worker", "multi_instance_with_running_occupant",
            "multi_instance_some_task_unplaced", "answer_needs_the_sum_over_instances", "specific_id_demands", "mixed_time_units")})
        multi = _multi(inst)
        c["multi_instance_worker"] += multi
        c["multi_instance_next_to_single_entry_worker"] += multi and any(not any(isinstance(x, list) and len(x) > 1 for x in cap) for cap in inst["caps"])
        c["multi_instance_with_running_occupant"] += multi and bool(inst["occ"])
        c["multi_instance_some_task_unplaced"] += multi and any(not a["placed"] for a in rec["ans"])
        c["answer_needs_the_sum_over_instances"] += any(cl == "needs_sum" for cl, _ in finds.get(rec["id"] * 100, []))
        c["specific_id_demands"] += _pinned(inst)
        c["mixed_time_units"] += bool(inst.get("units"))
    res.extra["instance_classes"] = classes
    res.extra["instance_families"] = {
        "directed_multi_instance": sum(1 for rec in recs if rec["tag"].startswith("multi_")),
        "directed_mixed_units": sum(1 for rec in recs if rec["tag"].startswith("units_")),
        "directed_other": sum(1 for rec in recs if not rec["tag"].startswith(("multi_", "units_", "gen"))),
        "random": sum(1 for rec in recs if rec["tag"] == "gen"), "random_multi_instance": sum(1 for rec in recs if rec["tag"] == "gen_multi"),
    }
    res.extra["answer_outside_modelled_space"] = [{"policy": x["policy"], "mode": x["mode"], "inst": x["inst"], "ans": x["ans"]} for x in outside[:5]]
    res.extra["answers_outside_modelled_space"] = len(outside)
    causes = {}
    nfix = 0
    for rec in sorted(failing, key=lambda x: (len(x["inst"]["tasks"]), len(x["inst"]["occ"]), len(json.dumps(x["inst"])))):
        pol = rec["policy"]
        clause, wit = next((c, w) for c, w in finds[rec["id"] * 100] if c in ("better", "addable"))
        fl = explained.get(rec["id"])
        cause = "+".join(fl) if fl else None
        causes[f"{pol}:{cause or 'unexplained'}"] = causes.get(f"{pol}:{cause or 'unexplained'}", 0) + 1
        detail = {
            "policy": pol, "mode": rec["mode"], "time_discretization": rec["disc"], "plan_ahead": rec["plan_ahead"], "tag": rec["tag"],
            "inst": rec["inst"], "call": f"{SCHED_NAME[pol]}(goal='max_goodput', enforce_deadlines=True, release_taskgraphs={rec['mode'] == 'graphs'}).schedule(now={rec['inst']['now']})",
            "answer": rec["ans"], "answer_text": _plan_text(rec, rec["ans"]),
            "conventions": tlc_record(rec, 0)["conv"],
            "attributed_to": cause, "attribution_text": [CAUSE_TEXT[f] for f in (fl or ())],
        }
        if clause == "better":
            plan = [dict(p) for p in wit]
            detail["better_plan"] = plan
            detail["better_plan_text"] = _plan_text(rec, plan)
            what = f"{SCHED_NAME[pol]} ({rec['mode']} mode) returned a plan with less goodput than a feasible plan TLC found: {detail['better_plan_text']}"
        else:
            plan = [dict(p) for p in rec["ans"]]
            plan[wit["t"] - 1] = {"placed": True, "w": wit["w"], "s": wit["s"], "start": wit["start"]}
            detail["addable"] = wit
            detail["extended_plan_text"] = _plan_text(rec, plan)
            what = f"{SCHED_NAME[pol]} ({rec['mode']} mode) left t{wit['t']} out although it can be added on worker {wit['w']} with strategy {wit['s']} at {wit['start']}"
        if nfix < (6 if quick else 25) or not fl:
            try:
                detail["reproduction"] = fix_check(rec, plan)
            except Exception as ex:  # the fix-check is a diagnosis, not the verdict
                detail["reproduction"] = {"error": f"{type(ex).__name__}: {ex}"[:300]}
            nfix += 1
        if cause:
            what += f" [cause: {cause}]"
        key = f"{pol}:{cause}" if cause else f"{pol}/{rec['mode']}:{inst_key(rec)}"
        res.violate(CLAUSE[pol], what, detail, key=key)
        if len(res.samples) < 3:
            res.samples.append({"verdict": "violation", "clause": CLAUSE[pol], "what": what, "inst": rec["inst"], "answer": detail["answer_text"]})
    res.extra["violation_causes"] = causes
    for rec in recs:
        if rec not in failing and any(cl == "needs_sum" for cl, _ in finds.get(rec["id"] * 100, [])) and rec["inst"]["occ"]:
            res.samples.append({"verdict": "ok: the answer needs the sum over the instances of a resource name", "policy": rec["policy"], "mode": rec["mode"],
                                "inst": rec["inst"], "answer": _plan_text(rec, rec["ans"])})
            break
    for rec in recs:
        if len(res.samples) >= 7:
            break
        if rec not in failing and any(not a["placed"] for a in rec["ans"]) and rec["tag"] in ("gen", "gen_multi"):
            res.samples.append({"verdict": "ok: optimal / maximal with unplaced tasks", "policy": rec["policy"], "mode": rec["mode"],
                                "inst": rec["inst"], "answer": _plan_text(rec, rec["ans"]), "complete_plans_examined": stats.get(rec["id"] * 100, 0)})
    return res


def _absorb(res, name, runs, wall):
    agg = tlc.TLCResult(ok=True, stdout="")
    agg.distinct = sum(x["distinct"] for x in runs)
    agg.generated = sum(x["generated"] for x in runs)
    agg.depth = max(x["depth"] for x in runs)
    agg.wall_s = wall
    res.add_tlc(f"{name} ({len(runs)} JVMs, cpu {round(sum(x['wall_s'] for x in runs))}s)", agg)
    res.extra["tlc_runs"][-1]["never_taken"] = []


def replay(d):
    """Re-run the stored case: real planner again, then TLC on the single record with
    the plain invariants (the counterexample is the better plan / the addable task)."""
    det = d["detail"]
    c = {"policy": det["policy"], "mode": det["mode"], "disc": det["time_discretization"], "plan_ahead": det["plan_ahead"], "tag": det.get("tag", "replay"), "inst": det["inst"]}
    rec = realize(c)
    if "skip" in rec:
        print("replay: " + rec["skip"])
        return 2
    print("answer now:   ", _plan_text(rec, rec["ans"]))
    print("answer stored:", det["answer_text"])
    finds, stats, r = run_batch([tlc_record(rec, 1)], timeout=900, invariants=("C14_NoBetterPlan", "C14_Maximal"), constraint="CanImprove")
    if r.ok:
        print("TLC: the property holds for this record")
        return 0
    print(f"TLC: invariant {r.violation_name} violated; counterexample:")
    for h, st in r.trace:
        print("  ", h, json.dumps(st.get("plan"), default=str))
    return 1
