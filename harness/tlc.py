"""Thin driver around TLC: run a config, parse statistics / coverage / error
traces, load `-dump dot,actionlabels` graphs and `-simulate file=` behaviours."""
from __future__ import annotations

import os
import re
import shutil
import subprocess
import tempfile
import time
from dataclasses import dataclass, field

from . import tlaval

SPEC_DIR = os.path.join(os.path.dirname(os.path.dirname(os.path.abspath(__file__))), "spec")
JAR_CP = "/opt/veriftools/tla/tla2tools.jar:/opt/veriftools/tla/CommunityModules-deps.jar"


class TLCMachineryError(Exception):
    """TLC crashed / output unparsable: a machinery failure (exit 2), never a verdict."""


@dataclass
class TLCResult:
    ok: bool
    stdout: str
    generated: int = 0
    distinct: int = 0
    depth: int = 0
    wall_s: float = 0.0
    violation_kind: str | None = None  # invariant | action_property | temporal | deadlock | assumption | postcondition
    violation_name: str | None = None
    trace: list = field(default_factory=list)  # [(header, statedict)]
    coverage: dict = field(default_factory=dict)  # action -> (distinct, total)
    printed: list = field(default_factory=list)  # PrintT lines (raw)

    @property
    def transitions(self) -> int:
        return self.generated

    def never_taken(self):
        return sorted(a for a, (d, t) in self.coverage.items() if t == 0 and a not in ("Init",))


_COV_RE = re.compile(r"^<(\w+) line \d+, col \d+ to line \d+, col \d+ of module (\w+)>: (\d+):(\d+)\s*$")


def _parse_output(out: str, res: TLCResult):
    m = re.search(r"(\d+) states generated, (\d+) distinct states found", out)
    if m:
        res.generated, res.distinct = int(m.group(1)), int(m.group(2))
    m = re.search(r"The depth of the complete state graph search is (\d+)", out)
    if m:
        res.depth = int(m.group(1))
    for line in out.splitlines():
        cm = _COV_RE.match(line)
        if cm:
            name = cm.group(1)
            d, t = int(cm.group(3)), int(cm.group(4))
            od, ot = res.coverage.get(name, (0, 0))
            res.coverage[name] = (od + d, ot + t)
    # violations
    m = re.search(r"Error: Invariant (\S+) is violated", out)
    if m:
        res.violation_kind, res.violation_name = "invariant", m.group(1).rstrip(".")
    m2 = re.search(r"Error: Action property (\S+) is violated", out)
    if m2:
        res.violation_kind, res.violation_name = "action_property", m2.group(1).rstrip(".")
    if "Error: Temporal properties were violated" in out:
        res.violation_kind, res.violation_name = "temporal", "temporal"
    if "Error: Deadlock reached" in out:
        res.violation_kind, res.violation_name = "deadlock", "deadlock"
    m3 = re.search(r"Error: Assumption line (\d+).*? is false", out)
    if m3:
        res.violation_kind, res.violation_name = "assumption", f"line {m3.group(1)}"
    m4 = re.search(r"Error: The postcondition .*?is violated|Error: Postcondition", out)
    if m4 or "postcondition" in out.lower() and "violated" in out.lower():
        if res.violation_kind is None:
            res.violation_kind, res.violation_name = "postcondition", "postcondition"
    # error trace
    if res.violation_kind:
        for sm in re.finditer(r"^State (\d+): (<.*?>)?\s*\n((?:(?:/\\|  ).*\n?)+)", out, re.M):
            try:
                st = tlaval.parse_state(sm.group(3))
            except tlaval.ParseError:
                st = {"_raw": sm.group(3)}
            res.trace.append((sm.group(2) or "", st))


def run_tlc(
    module: str,
    cfg: str,
    *,
    workers: int | str = "auto",
    simulate: str | None = None,
    depth: int | None = None,
    seed: int | None = None,
    coverage: bool = True,
    dump_dot: str | None = None,
    timeout: int = 3600,
    env: dict | None = None,
    deadlock: bool = True,
    extra: list | None = None,
    spec_dir: str | None = None,
    java_opts: list | None = None,
    allow_timeout: bool = False,
) -> TLCResult:
    """Run TLC on `module` (path or name under spec/) with config `cfg`."""
    sd = spec_dir or SPEC_DIR
    mod_path = module if os.path.isabs(module) else os.path.join(sd, module)
    cfg_path = cfg if os.path.isabs(cfg) else os.path.join(sd, "cfg", cfg)
    if not os.path.exists(cfg_path):
        cfg_path = cfg if os.path.isabs(cfg) else os.path.join(sd, cfg)
    meta = tempfile.mkdtemp(prefix="tlcmeta_")
    # TLC unpacks its standard modules into java.io.tmpdir and never removes them: keep that inside the run's scratch
    cmd = ["java", "-XX:+UseParallelGC", "-Xmx8g", f"-Djava.io.tmpdir={meta}"]
    cmd += java_opts or []
    cmd += ["-cp", JAR_CP, "tlc2.TLC"]
    cmd += ["-workers", str(workers), "-metadir", meta, "-noGenerateSpecTE", "-config", cfg_path]
    if coverage and not simulate:
        cmd += ["-coverage", "1"]
    if not deadlock:
        cmd += ["-deadlock"]
    if simulate is not None:
        cmd += ["-simulate", simulate] if simulate else ["-simulate"]
    if depth is not None:
        cmd += ["-depth", str(depth)]
    if seed is not None:
        cmd += ["-seed", str(seed)]
    if dump_dot:
        cmd += ["-dump", "dot,actionlabels", dump_dot]
    cmd += extra or []
    cmd += [mod_path]
    e = dict(os.environ)
    e.update(env or {})
    t0 = time.time()
    try:
        p = subprocess.run(
            cmd, cwd=os.path.dirname(mod_path), capture_output=True, text=True, timeout=timeout, env=e
        )
        out = p.stdout + p.stderr
        rc = p.returncode
    except subprocess.TimeoutExpired as ex:
        out = (ex.stdout or b"").decode() if isinstance(ex.stdout, bytes) else (ex.stdout or "")
        rc = -9
        if not allow_timeout:
            shutil.rmtree(meta, ignore_errors=True)
            raise TLCMachineryError(f"TLC timed out after {timeout}s: {' '.join(cmd)}\n{out[-2000:]}")
    finally:
        shutil.rmtree(meta, ignore_errors=True)
    res = TLCResult(ok=False, stdout=out, wall_s=time.time() - t0)
    _parse_output(out, res)
    res.printed = [l for l in out.splitlines() if l.startswith("@@")]
    if rc == -9:
        res.ok = res.violation_kind is None
        return res
    finished = "Model checking completed. No error has been found." in out or (
        simulate is not None and res.violation_kind is None and rc == 0
    )
    if finished and res.violation_kind is None:
        res.ok = True
        return res
    if res.violation_kind is None:
        k = out.find("Error:")
        head = out[k:k + 1500] if k >= 0 else ""
        raise TLCMachineryError(f"TLC failed (rc={rc}) without a recognisable verdict:\n{head}\n...\n{out[-2500:]}")
    return res


def sany(path: str) -> tuple[bool, str]:
    p = subprocess.run(
        ["java", "-cp", JAR_CP, "tla2sany.SANY", path],
        cwd=os.path.dirname(path),
        capture_output=True,
        text=True,
    )
    out = p.stdout + p.stderr
    ok = p.returncode == 0 and "Fatal errors" not in out and "*** Errors" not in out and "Parsing or semantic analysis failed" not in out
    return ok, out


# ---------------------------------------------------------------------------
# dot graphs


@dataclass
class Graph:
    states: dict  # id -> state dict
    edges: dict  # id -> [(label, dst)]
    init: list


_NODE_RE = re.compile(r'^(-?\d+) \[label="((?:[^"\\]|\\.)*)"(,style = filled)?')
_EDGE_RE = re.compile(r'^(-?\d+) -> (-?\d+) \[label="((?:[^"\\]|\\.)*)"')


def _unescape(s: str) -> str:
    return s.replace("\\n", "\n").replace('\\"', '"').replace("\\\\", "\\")


def load_dot(path: str) -> Graph:
    states, edges, init = {}, {}, []
    with open(path) as f:
        for line in f:
            m = _EDGE_RE.match(line)
            if m:
                edges.setdefault(m.group(1), []).append((_unescape(m.group(3)), m.group(2)))
                continue
            m = _NODE_RE.match(line)
            if m:
                nid = m.group(1)
                if nid not in states:
                    states[nid] = tlaval.parse_state(_unescape(m.group(2)))
                if m.group(3):
                    init.append(nid)
    for nid in states:
        edges.setdefault(nid, [])
    return Graph(states, edges, init)


# ---------------------------------------------------------------------------
# -simulate file= behaviours

_HDR_RE = re.compile(r"^\\\* <(.*?) line \d+, col \d+ to line \d+, col \d+ of module \w+>", re.M)


def load_behaviour(path: str):
    """Return [(action_label, state dict)] from one `-simulate file=` module."""
    txt = open(path).read()
    parts = re.split(r"^STATE_(\d+) == *\n?", txt, flags=re.M)
    out = []
    # parts: [pre, n1, body1, n2, body2, ...]; the header comment for state k is at the end of the previous chunk
    prev = parts[0]
    for k in range(1, len(parts), 2):
        body = parts[k + 1]
        hdrs = _HDR_RE.findall(prev)
        label = hdrs[-1] if hdrs else ""
        # body ends at blank line / next comment
        lines = []
        for ln in body.splitlines():
            if ln.startswith("\\*") or ln.startswith("====") or (not ln.strip() and lines):
                break
            if ln.strip():
                lines.append(ln)
        out.append((label, tlaval.parse_state("\n".join(lines))))
        prev = body
    return out
