"""C19 — workload and cluster descriptions are instantiated faithfully.

M: TLC checks the release-policy definitions of `spec/Loader.tla` themselves: the closed forms
   of the fixed / periodic / closed-loop release sequences against operational definitions
   (`DefsAgree`), the integer deadline-stretch condition against its existential definition
   (`StretchAgree`), and the closed-loop state machine (`LoopSpec`: never more than
   `concurrency` graphs in flight, exactly N in total, every completion releases at most one).
T: seeded abstract descriptions (job graphs, strategy menus, resource specs, the five release
   policies, deadline variance / bounds, SLOs, override flags, replication, profile sharing)
   are serialised with json / yaml (trusted) to scratch files and loaded by the real
   `WorkloadLoader` / `WorkerLoader`; the resulting objects are projected through public
   getters; closed-loop graphs are driven through `Workload.notify_task_graph_completion`
   in various completion orders.  Each (description, objects) record is evaluated by TLC
   (`Loader!CheckRecord`): TLC names the failing record and clause, Python only ships data.

Python never decides a clause: expectations (defaults, overrides, release sequences, critical
path, stretch interval, isomorphism) are all operators of Loader.tla.
"""
from __future__ import annotations

import itertools
import json
import os
import random
import re
import sys
import time
import traceback

from . import mcgen, tlaval, tlc
from .common import REPO, CheckResult, Scratch, parallel, rng, seed, setup_repo_import

ABSENT = -1
PPM = 10**6

# conventions of the pinned code the property statement is silent about (Loader.tla, Conv)
CONV = {
    "defaultBatch": 1,
    "defaultRuntime": 0,
    "defaultProb": PPM,
    "defaultStart": 0,
    "overrideNPolicies": {"fixed"},
    "uniqueShares": True,
    "maxCopy": 64,
}

ASSUMPTIONS = [
    "json.dump / yaml.safe_dump write the abstract description faithfully (trusted serialisers)",
    "projection through public getters: Workload.job_graphs/task_graphs, JobGraph.get_nodes/get_children/"
    "release_policy (policy_type,start_time,period,num_invocations,rate,coefficient,concurrency), Job.name/"
    "conditional/terminal/probability/slo/profile, WorkProfile.name/id/execution_strategies/loading_strategies, "
    "ExecutionStrategy.resources/batch_size/runtime, Resources.resources, TaskGraph.name/job_graph/release_time/"
    "get_nodes/get_children, Task.name/id/timestamp/task_graph/release_time/deadline/job/profile, "
    "WorkerPools.worker_pools, WorkerPool.name/workers, Worker.name/resources",
    "floats (probability, rate, coefficient) are compared in parts per million",
    "flags object = namespace with the defaults of main.py for every attribute the loaders read; "
    "use_branch_predicated_deadlines / resolve_conditionals_at_submission / decompose_deadlines stay False",
    "numpy.random.default_rng() is wrapped from outside to be seeded (reproducibility of the samples only; "
    "the Poisson/Gamma clauses quantify over whatever values are drawn)",
    "periodic graphs are only generated together with flags carrying a finite loop_timeout (without flags the "
    "horizon is sys.maxsize); graphs with SLOs use runtimes >= 1 and probabilities > 0 (zero-weight nodes make "
    "Graph.get_longest_path return a truncated path, which is property C17's subject); every node has a "
    "work_profile with at least one execution strategy",
    "conventions fixed by the pinned code and passed to the spec as Conv: " + json.dumps(
        {k: (sorted(v) if isinstance(v, set) else v) for k, v in CONV.items()}),
    "deadline bounds (min_deadline / max_deadline) clamp the added slack, as EventTime.fuzz does",
]


class HarnessFlagMissing(Exception):
    """The loaders read a flag the harness does not provide: a machinery failure, not a verdict."""


class Flags:
    """Stand-in for absl FLAGS (defaults of /repo/main.py)."""

    DEFAULTS = dict(
        log_dir=None, log_file_name=None, log_level="debug",
        override_poisson_arrival_rate=0.0, override_gamma_coefficient=0.0, override_arrival_period=0,
        override_num_invocation=0, override_slo=-1, unique_work_profiles=False, replication_factor=1,
        loop_timeout=sys.maxsize, min_deadline=0, max_deadline=sys.maxsize, min_deadline_variance=0,
        max_deadline_variance=20, use_branch_predicated_deadlines=False,
        resolve_conditionals_at_submission=False, decompose_deadlines=False, random_seed=0,
    )

    def __init__(self, **kw):
        self.__dict__.update(self.DEFAULTS)
        self.__dict__.update(kw)

    def __getattr__(self, k):
        if k.startswith("__"):
            raise AttributeError(k)
        raise HarnessFlagMissing(k)

    def __bool__(self):
        return True


# ---------------------------------------------------------------------------
# abstract descriptions


def S(runtime=10, batch=ABSENT, res=None):
    """strategy; res = [(name, id, q)] or None (no resource_requirements key)"""
    return {"res": [{"name": n, "id": i, "q": q} for n, i, q in (res or [])], "has_res": res is not None,
            "batch": batch, "runtime": runtime}


def P(name, exec_, load=()):
    return {"name": name, "exec": list(exec_), "load": list(load)}


def N(name, profile, children=(), conditional=False, terminal=False, prob=ABSENT, slo=ABSENT):
    return {"name": name, "profile": profile, "children": list(children), "conditional": conditional,
            "terminal": terminal, "prob": prob, "slo": slo}


def G(name, nodes, policy, start=ABSENT, period=ABSENT, invocations=ABSENT, rate=ABSENT, coefficient=ABSENT,
      concurrency=ABSENT, variance=()):
    return {"name": name, "nodes": list(nodes), "policy": policy, "start": start, "period": period,
            "invocations": invocations, "rate": rate, "coefficient": coefficient, "concurrency": concurrency,
            "variance": list(variance)}


def F(present=False, ov_period=0, ov_n=0, ov_rate=0, ov_coef=0, ov_slo=ABSENT, unique=False, repl=1,
      timeout=ABSENT, min_deadline=0, max_deadline=ABSENT):
    return {"present": present, "ov_period": ov_period, "ov_n": ov_n, "ov_rate": ov_rate, "ov_coef": ov_coef,
            "ov_slo": ov_slo, "unique": unique, "repl": repl, "timeout": timeout, "min_deadline": min_deadline,
            "max_deadline": max_deadline}


def D(id_, profiles, graphs, flags=None, fmt="json", spell=0):
    return {"id": id_, "kind": "workload", "fmt": fmt, "spell": spell,
            "desc": {"profiles": list(profiles), "graphs": list(graphs), "flags": flags or F()}}


def concrete_workload(desc, spell=0):
    """abstract description -> the dict written to the file.  `spell` picks between equivalent
    spellings (omit a false flag / empty children list or write it)."""
    sr = random.Random(spell)

    def strat(s):
        o = {}
        if s["batch"] != ABSENT:
            o["batch_size"] = s["batch"]
        if s["runtime"] != ABSENT:
            o["runtime"] = s["runtime"]
        if s["has_res"]:
            o["resource_requirements"] = {f"{r['name']}:{r['id']}": r["q"] for r in s["res"]}
        return o

    profiles = []
    for p in desc["profiles"]:
        o = {"name": p["name"], "execution_strategies": [strat(s) for s in p["exec"]]}
        if p["load"] or sr.random() < 0.2:
            o["loading_strategies"] = [strat(s) for s in p["load"]]
        profiles.append(o)
    graphs = []
    for g in desc["graphs"]:
        nodes = []
        for n in g["nodes"]:
            o = {"name": n["name"], "work_profile": n["profile"]}
            if n["children"] or sr.random() < 0.4:
                o["children"] = list(n["children"])
            for key in ("conditional", "terminal"):
                if n[key] or sr.random() < 0.3:
                    o[key] = bool(n[key])
            if n["prob"] != ABSENT:
                o["probability"] = n["prob"] / PPM
            if n["slo"] != ABSENT:
                o["slo"] = n["slo"]
            nodes.append(o)
        o = {"name": g["name"], "graph": nodes, "release_policy": g["policy"]}
        for key in ("start", "period", "invocations", "concurrency"):
            if g[key] != ABSENT:
                o[key] = g[key]
        for key in ("rate", "coefficient"):
            if g[key] != ABSENT:
                o[key] = g[key] / PPM
        if g["variance"]:
            o["deadline_variance"] = list(g["variance"])
        graphs.append(o)
    return {"profiles": profiles, "graphs": graphs}


def concrete_flags(f, timeout_as_eventtime=False):
    if not f["present"]:
        return None
    kw = dict(
        override_poisson_arrival_rate=f["ov_rate"] / PPM if f["ov_rate"] > 0 else 0.0,
        override_gamma_coefficient=f["ov_coef"] / PPM if f["ov_coef"] > 0 else 0.0,
        override_arrival_period=f["ov_period"], override_num_invocation=f["ov_n"], override_slo=f["ov_slo"],
        unique_work_profiles=f["unique"], replication_factor=f["repl"],
        loop_timeout=f["timeout"] if f["timeout"] != ABSENT else sys.maxsize,
        min_deadline=f["min_deadline"],
        max_deadline=f["max_deadline"] if f["max_deadline"] != ABSENT else sys.maxsize,
    )
    if timeout_as_eventtime:
        from utils import EventTime

        kw["loop_timeout"] = EventTime(kw["loop_timeout"], EventTime.Unit.US)
    return Flags(**kw)


def concrete_cluster(desc):
    return [
        {"name": p["name"],
         "workers": [{"name": w["name"],
                      "resources": [{"name": r["name"] + (":" + r["id"] if r["id"] else ""), "quantity": r["q"]}
                                    for r in w["resources"]]} for w in p["workers"]]}
        for p in desc["pools"]
    ]


# ---------------------------------------------------------------------------
# directed descriptions: one per rare path / design-round suspect

GPU1 = [("GPU", "any", 1)]


def _chain(names, profile="P1", slos=None):
    slos = slos or {}
    return [N(n, profile, names[i + 1 : i + 2], slo=slos.get(n, ABSENT)) for i, n in enumerate(names)]


def directed():
    p1 = P("P1", [S(10, res=GPU1)])
    p2 = P("P2", [S(4, batch=2, res=[("CPU", "c1", 2), ("GPU", "any", 1)]), S(25, res=GPU1), S(7)],
           load=[S(3, res=GPU1)])
    out = []
    out.append(D("dir:chain_fixed", [p1, p2], [G("G", [N("a", "P1", ["b"]), N("b", "P2", ["c"]), N("c", "P1")],
                                                  "fixed", start=5, period=10, invocations=3, variance=(10, 50))]))
    out.append(D("dir:fixed_yaml_defaults", [p1], [G("G", _chain(["a", "b"]), "fixed", period=0, invocations=2)],
                 fmt="yaml"))
    out.append(D("dir:fixed_zero_invocations", [p1], [G("G", _chain(["a"]), "fixed", period=3, invocations=0)]))
    out.append(D("dir:slo_some", [p1], [G("G", _chain(["a", "b", "c"], slos={"a": 7, "c": 9}), "fixed",
                                           period=10, invocations=1)]))
    out.append(D("dir:slo_later_only", [p1], [G("G", _chain(["a", "b", "c"], slos={"b": 9}), "fixed",
                                                 period=10, invocations=1)]))
    out.append(D("dir:slo_all_distinct", [p1], [G("G", _chain(["a", "b"], slos={"a": 7, "b": 8}), "fixed",
                                                   period=10, invocations=1)]))
    out.append(D("dir:slo_uniform", [p1], [G("G", _chain(["a", "b"], slos={"a": 12, "b": 12}), "fixed",
                                              period=10, invocations=2, variance=(0, 100))]))
    out.append(D("dir:periodic_flags", [p1], [G("G", _chain(["x"]), "periodic", start=5, period=10)],
                 flags=F(True, timeout=40)))
    out.append(D("dir:periodic_horizon_on_release", [p1], [G("G", _chain(["x", "y"]), "periodic", start=5, period=10)],
                 flags=F(True, timeout=25), fmt="yaml"))
    for c, n in ((2, 5), (3, 2), (2, 2), (1, 3)):
        out.append(D(f"dir:closed_loop_c{c}_n{n}", [p1, p2],
                     [G("L", [N("a", "P1", ["b"]), N("b", "P2")], "closed_loop", start=4, concurrency=c,
                        invocations=n, variance=(0, 20))], spell=c))
    out.append(D("dir:closed_loop_flags", [p1], [G("L", _chain(["a"]), "closed_loop", concurrency=2, invocations=4),
                                                  G("H", _chain(["b"]), "fixed", period=5, invocations=2)],
                 flags=F(True, repl=2)))
    two = [G("G", [N("a", "P1", ["b"]), N("b", "P2")], "fixed", period=5, invocations=2),
           G("H", [N("u", "P2", ["v"]), N("v", "P2")], "fixed", period=5, invocations=1)]
    out.append(D("dir:replication3_shared", [p1, p2], two, flags=F(True, repl=3, unique=True)))
    out.append(D("dir:replication3_copies", [p1, p2], two, flags=F(True, repl=3, unique=False)))
    out.append(D("dir:two_graphs_noflags", [p1, p2], two, fmt="yaml"))
    cond = [N("c", "P1", ["x", "y"], conditional=True), N("x", "P2", ["t"], prob=300000),
            N("y", "P1", ["t"], prob=700000), N("t", "P1", terminal=True)]
    out.append(D("dir:conditional", [p1, p2], [G("G", cond, "fixed", period=8, invocations=2, variance=(25, 25))]))
    out.append(D("dir:conditional_yaml_flags", [p1, p2], [G("G", cond, "fixed", start=2, period=8, invocations=2)],
                 flags=F(True), fmt="yaml", spell=3))
    out.append(D("dir:override_period", [p1], [G("G", _chain(["a"]), "fixed", period=10, invocations=3)],
                 flags=F(True, ov_period=4)))
    out.append(D("dir:override_num_invocation", [p1], [G("G", _chain(["a"]), "fixed", period=10, invocations=3)],
                 flags=F(True, ov_n=5)))
    out.append(D("dir:override_slo", [p1, p2], [G("G", [N("a", "P1", ["b"], slo=3), N("b", "P2")], "fixed",
                                                   period=10, invocations=2, variance=(0, 30))],
                 flags=F(True, ov_slo=40)))
    out.append(D("dir:poisson", [p1], [G("G", _chain(["a", "b"]), "poisson", start=7, rate=50000, invocations=6)]))
    out.append(D("dir:poisson_override_rate", [p1], [G("G", _chain(["a"]), "poisson", rate=50000, invocations=4)],
                 flags=F(True, ov_rate=250000)))
    out.append(D("dir:gamma", [p1], [G("G", _chain(["a"]), "gamma", start=3, rate=20000, coefficient=2000000,
                                        invocations=6)]))
    out.append(D("dir:gamma_override_coef", [p1], [G("G", _chain(["a"]), "gamma", rate=100000, coefficient=500000,
                                                      invocations=5)], flags=F(True, ov_coef=1000000, ov_rate=50000)))
    out.append(D("dir:bounds", [p2], [G("G", _chain(["a", "b"], profile="P2"), "fixed", period=100, invocations=4,
                                         variance=(0, 100))], flags=F(True, min_deadline=5, max_deadline=8)))
    out.append(D("dir:variance_2000", [p2], [G("G", _chain(["a", "b", "c"], profile="P2"), "fixed", period=0,
                                                invocations=1, variance=(2000, 2000))], fmt="yaml"))
    return out


# ---------------------------------------------------------------------------
# seeded generation

RES_NAMES = ["CPU", "GPU", "RAM"]
RES_IDS = ["any", "any", "c1", "g2"]


def gen_strategy(r, min_runtime):
    if min_runtime == 0 and r.random() < 0.15:
        runtime = r.choice([ABSENT, 0])
    else:
        runtime = r.randint(1, 40)
    batch = r.choice([ABSENT, ABSENT, 1, 2, 4])
    k = r.choice([None, 0, 1, 1, 2, 2, 3])
    res = None
    if k is not None:
        keys = set()
        while len(keys) < k:
            keys.add((r.choice(RES_NAMES), r.choice(RES_IDS)))
        res = [(n, i, r.randint(1, 4)) for n, i in sorted(keys)]
        r.shuffle(res)
    return S(runtime, batch, res)


def gen_shape(r, prefix):
    """returns [(name, children, conditional, terminal, prob)]"""
    shape = r.choice(["single", "chain", "chain", "fork", "join", "diamond", "skip", "disconnected",
                      "conditional", "conditional", "cond_chain"])
    a, b, c, d, e, f = (prefix + x for x in "abcdef")
    plain = lambda n, ch=(): (n, list(ch), False, False, ABSENT)  # noqa: E731
    if shape == "single":
        return shape, [plain(a)]
    if shape == "chain":
        k = r.randint(2, 5)
        names = [a, b, c, d, e][:k]
        return shape, [plain(n, names[i + 1 : i + 2]) for i, n in enumerate(names)]
    if shape == "fork":
        return shape, [plain(a, [b, c] if r.random() < 0.5 else [c, b]), plain(b), plain(c)]
    if shape == "join":
        if r.random() < 0.5:
            return shape, [plain(a, [c]), plain(b, [c]), plain(c, [d]), plain(d)]
        return shape, [plain(a, [c]), plain(b, [c]), plain(c)]
    if shape == "diamond":
        return shape, [plain(a, [b, c]), plain(b, [d]), plain(c, [d]), plain(d)]
    if shape == "skip":
        return shape, [plain(a, [c, b]), plain(b, [c]), plain(c)]
    if shape == "disconnected":
        return shape, [plain(a, [b]), plain(b), plain(c, [d]), plain(d)]
    # conditional / terminal pair with 2-3 branches whose probabilities sum to 1
    k = r.choice([2, 2, 3])
    cuts = sorted(r.sample(range(1, 20), k - 1))
    pcts = [5 * (y - x) for x, y in zip([0] + cuts, cuts + [20])]
    if r.random() < 0.1:
        pcts = [0] * (k - 1) + [100]
        r.shuffle(pcts)
    branches = [b, c, d][:k]
    nodes = [(a, branches, True, False, ABSENT)]
    for n, pc in zip(branches, pcts):
        nodes.append((n, [e], False, False, pc * 10000))
    nodes.append((e, [f] if shape == "cond_chain" else [], False, True, ABSENT))
    if shape == "cond_chain":
        nodes.append(plain(f))
    return shape, nodes


POLICIES = ["fixed", "fixed", "periodic", "poisson", "gamma", "closed_loop", "closed_loop"]
RATES = [10000, 20000, 50000, 100000, 250000, 500000, 1000000, 2000000]
COEFS = [500000, 1000000, 2000000, 4000000]
VARIANCES = [(), (), (0, 0), (0, 20), (10, 50), (50, 10), (25, 25), (-30, 10), (0, 300), (100, 100), (2000, 2000)]


def gen_workload(r, id_):
    flags_present = r.random() < 0.6
    ngraphs = r.choice([1, 1, 2])
    policies = [r.choice(POLICIES) for _ in range(ngraphs)]
    if "periodic" in policies:
        flags_present = True
    slo_mode = r.choice(["none", "none", "some", "all", "all_same"])
    fl = F(flags_present)
    if flags_present:
        if r.random() < 0.25:
            fl["ov_period"] = r.randint(1, 12)
        if r.random() < 0.25:
            fl["ov_n"] = r.randint(1, 5)
        if r.random() < 0.25:
            fl["ov_rate"] = r.choice(RATES)
        if r.random() < 0.25:
            fl["ov_coef"] = r.choice(COEFS)
        if r.random() < 0.2:
            fl["ov_slo"] = r.randint(1, 80)
        fl["unique"] = r.random() < 0.5
        fl["repl"] = r.choice([1, 1, 2, 3])
        fl["min_deadline"] = r.choice([0, 0, 0, 2, 5])
        fl["max_deadline"] = r.choice([ABSENT, ABSENT, ABSENT, 3, 10, 40])
    has_slo = slo_mode != "none" or fl["ov_slo"] > 0
    nprof = r.randint(1, 3)
    profiles = []
    for k in range(nprof):
        ex = [gen_strategy(r, 1 if has_slo else 0) for _ in range(r.randint(1, 3))]
        ld = [gen_strategy(r, 0) for _ in range(r.choice([0, 0, 1, 2]))]
        profiles.append(P(f"P{k+1}", ex, ld))
    graphs = []
    shapes = []
    max_start = 0
    for gi, pol in enumerate(policies):
        shape, raw = gen_shape(r, "")
        shapes.append(shape)
        same_slo = r.randint(1, 60)
        nodes = []
        for (nm, ch, cd, tm, pb) in raw:
            if has_slo and pb == 0:
                pb = 10000
            slo = ABSENT
            if slo_mode == "all" or (slo_mode == "some" and r.random() < 0.5):
                slo = r.randint(1, 60)
            elif slo_mode == "all_same":
                slo = same_slo
            nodes.append(N(nm, r.choice(profiles)["name"], ch, cd, tm, pb, slo))
        if has_slo:
            # probabilities of a branch set must stay a distribution after the 0 -> 1% repair: leave as is,
            # the loader does not check it and neither does the property
            pass
        if r.random() < 0.3:
            r.shuffle(nodes)
        g = G(f"G{gi+1}", nodes, pol, variance=r.choice(VARIANCES))
        if r.random() < 0.6:
            g["start"] = r.randint(0, 30)
        start = max(g["start"], 0)
        if pol in ("fixed", "periodic"):
            if not (fl["ov_period"] > 0 and r.random() < 0.4):
                g["period"] = r.randint(0 if pol == "fixed" else 1, 15)
        if pol == "fixed":
            if not (fl["ov_n"] > 0 and r.random() < 0.4):
                g["invocations"] = r.randint(0, 5)
        if pol in ("poisson", "gamma"):
            g["invocations"] = r.randint(0, 6)
            if not (fl["ov_rate"] > 0 and r.random() < 0.4):
                g["rate"] = r.choice(RATES)
        if pol == "gamma":
            if not (fl["ov_coef"] > 0 and r.random() < 0.4):
                g["coefficient"] = r.choice(COEFS)
        if pol == "closed_loop":
            g["concurrency"] = r.randint(1, 4)
            g["invocations"] = r.randint(1, 6)
        max_start = max(max_start, start)
        graphs.append(g)
    if flags_present and ("periodic" in policies or r.random() < 0.3):
        per = fl["ov_period"] if fl["ov_period"] > 0 else max(
            [g["period"] for g in graphs if g["policy"] == "periodic"] + [1])
        fl["timeout"] = r.choice([max_start + k * per + o for k in range(0, 6) for o in (-1, 0, 1, 3)] + [0])
        fl["timeout"] = max(0, fl["timeout"])
    d = D(id_, profiles, graphs, fl, fmt=r.choice(["json", "yaml", "yml"]), spell=r.randint(0, 10**6))
    d["shapes"] = shapes
    d["slo_mode"] = slo_mode
    return d


def gen_cluster(r, id_):
    pools = []
    wn = 0
    for pi in range(r.randint(1, 3)):
        workers = []
        for _ in range(r.randint(1, 3)):
            wn += 1
            keys = []
            for _ in range(r.randint(1, 4)):
                n, i = r.choice(RES_NAMES + ["Slot"]), r.choice(["", "", "any", "r1", "r2"])
                if i and (n, i) in keys:
                    continue
                keys.append((n, i))
            workers.append({"name": f"W{pi+1}_{wn}", "resources": [{"name": n, "id": i, "q": r.randint(0, 9)}
                                                                    for n, i in keys]})
        pools.append({"name": f"Pool{pi+1}", "workers": workers})
    return {"id": id_, "kind": "cluster", "fmt": r.choice(["json", "yaml", "yml"]),
            "flags_present": r.random() < 0.4, "desc": {"pools": pools}}


def population(tier):
    q = tier == "quick"
    r = rng("c19-desc")
    out = directed()
    n_w = 150 if q else 5000
    n_c = 30 if q else 400
    out += [gen_workload(r, f"w{k:04d}") for k in range(n_w)]
    rc = rng("c19-cluster")
    out += [gen_cluster(rc, f"k{k:04d}") for k in range(n_c)]
    return out


# ---------------------------------------------------------------------------
# loading with the real loaders and projecting the objects


def _us(et):
    from utils import EventTime

    return int(et.to(EventTime.Unit.US).time)


def _ppm(x):
    return int(round(float(x) * PPM))


def _proj_strategies(strats):
    out = []
    for s in strats:
        rs = s.resources
        res = [] if rs is None else [{"name": r.name, "id": r.id, "q": int(q)} for r, q in rs.resources]
        out.append({"res": res, "batch": int(s.batch_size), "runtime": _us(s.runtime)})
    return out


def _proj_policy(p):
    def g(attr, conv):
        try:
            return conv(getattr(p, attr))
        except ValueError:
            return ABSENT

    return {"type": p.policy_type.name.lower(), "start": _us(p.start_time), "period": g("period", _us),
            "n": g("num_invocations", int), "rate": g("rate", _ppm), "coef": g("coefficient", _ppm),
            "conc": g("concurrency", int)}


def _proj_jobgraph(key, jg):
    nodes = []
    for j in jg.get_nodes():
        pr = j.profile
        nodes.append({
            "name": j.name, "children": [c.name for c in jg.get_children(j)], "conditional": bool(j.conditional),
            "terminal": bool(j.terminal), "prob": _ppm(j.probability), "slo": _us(j.slo),
            "profile": {"name": pr.name, "id": pr.id, "exec": _proj_strategies(pr.execution_strategies),
                        "load": _proj_strategies(pr.loading_strategies)},
        })
    return {"name": jg.name, "key": key, "nodes": nodes, "policy": _proj_policy(jg.release_policy)}


def _proj_taskgraph(tg):
    jg = tg.job_graph
    jobs = list(jg.get_nodes()) if jg is not None else []
    tasks = []
    for t in tg.get_nodes():
        tasks.append({
            "name": t.name, "id": t.id, "children": [c.name for c in tg.get_children(t)],
            "release": _us(t.release_time), "deadline": _us(t.deadline),
            "timestamp": ABSENT if t.timestamp is None else int(t.timestamp), "tg": t.task_graph,
            "job": t.job.name, "job_same": any(t.job is j for j in jobs), "profile_id": t.profile.id,
        })
    return {"name": tg.name, "jg": jg.name if jg is not None else "", "release": _us(tg.release_time), "tasks": tasks}


EMPTY_TG = {"name": "", "jg": "", "release": 0, "tasks": []}


def _site(exc):
    """<ExceptionType>:<innermost repo function> of a loader failure (identifies the call site)."""
    site = "?"
    for fr in traceback.extract_tb(exc.__traceback__):
        if fr.filename.startswith(REPO):
            site = f"{os.path.basename(fr.filename)}:{fr.name}"
    return f"{type(exc).__name__}:{site}"


def _drive_closed_loop(wl, objs, desc, r):
    """Complete task graphs through Workload.notify_task_graph_completion (closed-loop graphs until
    nothing is in flight, other graphs a couple of times) and record what each completion released."""
    from utils import EventTime

    known = set(wl.task_graphs.keys())
    inflight = {}
    for name, tg in wl.task_graphs.items():
        inflight.setdefault(tg.job_graph.name, []).append(tg)
    closed = {jg.name for jg in wl.job_graphs.values() if jg.release_policy.policy_type.name == "CLOSED_LOOP"}
    budget = {}
    for jg in wl.job_graphs.values():
        pol = _proj_policy(jg.release_policy)
        budget[jg.name] = (max(pol["n"], 0) + max(pol["conc"], 0) + 3) if jg.name in closed else 2
    mode = r.choice(["fifo", "lifo", "random"])
    t = max([0] + [tg["release"] for tg in objs["taskgraphs"]]) + r.randint(0, 5)
    events, capped = [], {n: False for n in closed}
    while True:
        cands = [n for n, lst in inflight.items() if lst and budget[n] > 0]
        if not cands:
            break
        n = r.choice(sorted(cands))
        lst = inflight[n]
        tg = lst.pop(0 if mode == "fifo" else -1 if mode == "lifo" else r.randrange(len(lst)))
        budget[n] -= 1
        t += r.randint(0, 7)
        wl.notify_task_graph_completion(tg, EventTime(t, EventTime.Unit.US))
        new = [k for k in wl.task_graphs.keys() if k not in known]
        known.update(new)
        ev = {"jg": n, "done": tg.name, "finish": t, "has_new": bool(new), "extra": max(0, len(new) - 1),
              "new": _proj_taskgraph(wl.task_graphs[new[0]]) if new else EMPTY_TG}
        events.append(ev)
        for k in new:
            ntg = wl.task_graphs[k]
            inflight.setdefault(ntg.job_graph.name, []).append(ntg)
    for n in closed:
        capped[n] = bool(inflight.get(n)) and budget[n] <= 0
    objs["looped"] = True
    objs["events"] = events
    objs["loops"] = [{"jg": n, "capped": capped[n]} for n in sorted(closed)]
    objs["loop_mode"] = mode


def _empty_objs(error=""):
    return {"loaded": False, "error": error, "jobgraphs": [], "taskgraphs": [], "looped": False, "events": [],
            "loops": [], "pools": []}


def load_workload(item, scratch, r, timeout_as_eventtime=False):
    from data import WorkloadLoader

    conc = concrete_workload(item["desc"], item["spell"])
    path = os.path.join(scratch, f"{re.sub(r'[^A-Za-z0-9]', '_', item['id'])}.{item['fmt']}")
    with open(path, "w") as f:
        if item["fmt"] == "json":
            json.dump(conc, f)
        else:
            import yaml

            yaml.safe_dump(conc, f, default_flow_style=r.random() < 0.3, sort_keys=r.random() < 0.5)
    flags = concrete_flags(item["desc"]["flags"], timeout_as_eventtime)
    objs = _empty_objs()
    try:
        wl = WorkloadLoader(path, _flags=flags).workload
    except HarnessFlagMissing:
        raise
    except Exception as ex:  # a valid description must load: the spec's C19.load decides
        objs["error"] = f"{type(ex).__name__}: {ex}"[:300]
        objs["site"] = _site(ex)
        return conc, objs
    objs["loaded"] = True
    objs["jobgraphs"] = [_proj_jobgraph(k, jg) for k, jg in wl.job_graphs.items()]
    objs["taskgraphs"] = [_proj_taskgraph(tg) for tg in wl.task_graphs.values()]
    try:
        _drive_closed_loop(wl, objs, item["desc"], r)
    except HarnessFlagMissing:
        raise
    except Exception as ex:
        objs["loaded"] = False
        objs["error"] = f"notify_task_graph_completion: {type(ex).__name__}: {ex}"[:300]
        objs["site"] = _site(ex)
    return conc, objs


def load_cluster(item, scratch, r):
    from data import WorkerLoader

    conc = concrete_cluster(item["desc"])
    path = os.path.join(scratch, f"{item['id']}.{item['fmt']}")
    with open(path, "w") as f:
        if item["fmt"] == "json":
            json.dump(conc, f)
        else:
            import yaml

            yaml.safe_dump(conc, f, default_flow_style=r.random() < 0.3)
    objs = _empty_objs()
    try:
        pools = WorkerLoader(path, scheduler=None, _flags=Flags() if item["flags_present"] else None).get_worker_pools()
    except HarnessFlagMissing:
        raise
    except Exception as ex:
        objs["error"] = f"{type(ex).__name__}: {ex}"[:300]
        objs["site"] = _site(ex)
        return conc, objs
    objs["loaded"] = True
    objs["pools"] = [
        {"name": p.name,
         "workers": [{"name": w.name,
                      "resources": [{"name": res.name, "id": res.id, "q": int(q)} for res, q in w.resources.resources]}
                     for w in p.workers]}
        for p in pools.worker_pools
    ]
    return conc, objs


# ---------------------------------------------------------------------------
# TLC batch evaluation

_E_RE = re.compile(r'^"@@E (\S+) (\S*)"\s*$')
_F_RE = re.compile(r'^<<\s*"@@F"')


def parse_batch_output(out):
    """-> (exercised: id -> [clauses], failures: [(id, clause, kind, witness)])"""
    exercised, failures = {}, []
    lines = out.splitlines()
    i = 0
    while i < len(lines):
        ln = lines[i]
        m = _E_RE.match(ln)
        if m:
            exercised[m.group(1)] = [c for c in m.group(2).split(",") if c]
        elif _F_RE.match(ln):
            buf = ln
            val = None
            j = i
            while True:
                try:
                    val = tlaval.parse(buf)
                    break
                except tlaval.ParseError:
                    j += 1
                    if j >= len(lines) or j - i > 400:
                        raise tlc.TLCMachineryError(f"unparsable @@F tuple:\n{buf[:2000]}")
                    buf += "\n" + lines[j]
            i = j
            failures.append((val[1], val[2], val[3], val[4]))
        i += 1
    return exercised, failures


def _run_tlc(mod, cf, **kw):
    """run_tlc with one retry: the machine is shared and a concurrently cleaned /tmp metadir or an
    out-of-memory JVM start is not a verdict"""
    try:
        return tlc.run_tlc(mod, cf, **kw)
    except tlc.TLCMachineryError as ex:
        if "Unable to open" not in str(ex) and "tlcmeta" not in str(ex) and "OutOfMemory" not in str(ex):
            raise
        time.sleep(1.0)
        return tlc.run_tlc(mod, cf, **kw)


def tlc_batch(scratch, records, name="MC_LoaderBatch"):
    with open(os.path.join(scratch, "records.json"), "w") as f:
        json.dump(records, f)
    consts = {"Conv": CONV, "LoopMaxC": 1, "LoopMaxN": 1}
    mod, cf = mcgen.write_mc(
        scratch, "Loader", consts, name=name, extends="Json", init_next=("BInit", "BNext"),
        extra_defs='Records == JsonDeserialize("records.json")\nBInit == BatchInit\nBNext == BatchNext(Records)',
    )
    r = _run_tlc(mod, cf, workers=1, java_opts=JAVA_OPTS, timeout=3000, coverage=False)
    if not r.ok:
        raise tlc.TLCMachineryError(f"batch evaluation did not complete: {r.violation_kind} {r.violation_name}\n"
                                    f"{r.stdout[-3000:]}")
    ex, fails = parse_batch_output(r.stdout)
    missing = [rec["id"] for rec in records if rec["id"] not in ex]
    if missing:
        raise tlc.TLCMachineryError(f"TLC did not report on records {missing[:5]}\n{r.stdout[-3000:]}")
    return r, ex, fails


def _norm(v):
    if isinstance(v, dict):
        return {str(k): _norm(x) for k, x in v.items()}
    if isinstance(v, (set, frozenset)):
        return sorted((_norm(x) for x in v), key=repr)
    if isinstance(v, (list, tuple)):
        return [_norm(x) for x in v]
    return v


def _seeded_numpy(base):
    import numpy as np

    orig = np.random.default_rng
    ctr = itertools.count()

    def seeded(seed=None):
        return orig([base, next(ctr)] if seed is None else seed)

    np.random.default_rng = seeded
    return lambda: setattr(np.random, "default_rng", orig)


def tlc_record(item, objs):
    """what TLC sees of one item"""
    o = {k: v for k, v in objs.items() if k not in ("site", "loop_mode")}
    return {"id": item["id"], "kind": item["kind"], "desc": item["desc"], "objs": o}


def process_chunk(chunk_no, items):
    """load + project + TLC for one chunk of the population (runs in a worker process)."""
    setup_repo_import()
    random.seed(f"c19:{seed()}:{chunk_no}")
    restore = _seeded_numpy(1000 * seed() + chunk_no)
    t0 = time.time()
    loaded = []
    try:
        with Scratch() as scratch:
            for item in items:
                r = random.Random(f"{seed()}:{item['id']}")
                if item["kind"] == "cluster":
                    conc, objs = load_cluster(item, scratch, r)
                    loaded.append((item, conc, objs))
                    continue
                conc, objs = load_workload(item, scratch, r)
                loaded.append((item, conc, objs))
                if not objs["loaded"] and item["desc"]["flags"]["present"]:
                    # keep checking behind a crash: same description, --loop_timeout handed over as EventTime
                    conc2, objs2 = load_workload(item, scratch, r, timeout_as_eventtime=True)
                    if objs2["loaded"]:
                        it2 = dict(item, id=item["id"] + "+evt", lane="loop_timeout passed as EventTime")
                        loaded.append((it2, conc2, objs2))
            t_load = time.time() - t0
            recs = [tlc_record(it, ob) for it, _, ob in loaded]
            res, ex, fails = tlc_batch(scratch, recs)
    finally:
        restore()
    by_id = {it["id"]: (it, conc, ob) for it, conc, ob in loaded}
    out_f = []
    for rid, clause, kind, wit in fails:
        it, conc, ob = by_id[rid]
        if clause == "C19.load":
            kind = ob.get("site", "")
        out_f.append({"id": rid, "clause": clause, "kind": kind, "witness": _norm(wit), "item": it, "file": conc,
                      "objs": ob})
    stats = {"tlc": res, "exercised": ex, "failures": out_f, "t_load": t_load, "t_total": time.time() - t0,
             "n": len(loaded),
             "meta": [{"id": it["id"], "kind": it["kind"], "fmt": it["fmt"],
                       "policies": [g["policy"] for g in it["desc"].get("graphs", [])],
                       "shapes": it.get("shapes", []), "slo_mode": it.get("slo_mode", ""),
                       "flags": bool(it["desc"].get("flags", {}).get("present", it.get("flags_present", False))),
                       "loaded": ob["loaded"], "n_taskgraphs": len(ob["taskgraphs"]), "n_events": len(ob["events"]),
                       "loop_mode": ob.get("loop_mode", "")} for it, _, ob in loaded]}
    return stats


# ---------------------------------------------------------------------------
# M: the definitions themselves


JAVA_OPTS = mcgen.LIB_OPT + ["-XX:TieredStopAtLevel=1", "-Xss32m"]  # short runs: skip the C2 compiler


def model_check(tier):
    """M: returns a partial CheckResult (runs as one of the parallel jobs)."""
    res = CheckResult("C19", tier)
    q = tier == "quick"
    V = [(0, 0), (0, 50), (10, 25), (100, 30), (-20, 50), (250, 250), (15, 15)] + ([] if q else [(0, 300)])
    B = [(0, ABSENT), (2, ABSENT), (0, 3), (1, 4), (5, 2)]
    hi = 3 if q else 5
    extra = "\n".join([
        f"ASSUME DefsAgree(0..{hi}, 0..{hi}, 0..{hi + 1}, 0..{3 * hi + 2})",
        f"ASSUME StretchAgree(0..{8 if q else 24}, (-2)..{24 if q else 80}, {tlaval.to_tla(set(V))}, "
        f"{tlaval.to_tla(set(B))})",
    ])
    consts = {"Conv": CONV, "LoopMaxC": 3 if q else 6, "LoopMaxN": 6 if q else 12}
    with Scratch() as scratch:
        mod, cf = mcgen.write_mc(
            scratch, "Loader", consts, name="MC_LoaderLoop", spec="LoopSpec",
            invariants=["C19_InFlight", "C19_Total", "C19_Accounting", "C19_StopsAtN"],
            properties=["C19_AllReleased"], extra_defs=extra,
        )
        r = _run_tlc(mod, cf, workers=1 if q else 4, java_opts=JAVA_OPTS, timeout=3000)
    res.add_tlc("Loader/LoopSpec+DefsAgree+StretchAgree", r)
    res.extra["model_constants"] = {"LoopMaxC": consts["LoopMaxC"], "LoopMaxN": consts["LoopMaxN"],
                                    "DefsAgree": f"start,period in 0..{hi}, N in 0..{hi+1}, horizon in 0..{3*hi+2}",
                                    "StretchAgree": {"variances": V, "bounds": B}}
    if not r.ok:
        clause = {"C19_InFlight": "C19.closed_loop_inflight", "C19_Total": "C19.closed_loop_total",
                  "C19_StopsAtN": "C19.closed_loop_total", "C19_Accounting": "C19.closed_loop_inflight"}.get(
            r.violation_name, "C19.spec_definitions")
        res.violate(clause, f"TLC: {r.violation_kind} {r.violation_name} violated in Loader.tla (definitions / "
                    f"closed-loop model)", {"trace": [[h, _norm(s)] for h, s in r.trace], "tail": r.stdout[-1500:]},
                    key=f"spec:Loader:{r.violation_name}")
    return res


# ---------------------------------------------------------------------------


def _size(f):
    return len(json.dumps(f["item"]["desc"]))


def report(res, stats_list):
    clause_counts, fail_groups, metas = {}, {}, []
    for st in stats_list:
        res.states += st["tlc"].distinct
        res.transitions += st["tlc"].generated
        for rid, cl in st["exercised"].items():
            for c in cl:
                clause_counts[c] = clause_counts.get(c, 0) + 1
        for f in st["failures"]:
            key = f"{f['clause']}:{f['kind']}" if f["kind"] else f["clause"]
            fail_groups.setdefault(key, []).append(f)
        metas += st["meta"]
    res.traces_validated = len(metas)
    pol = {}
    for m in metas:
        for p in m["policies"]:
            pol[p] = pol.get(p, 0) + 1
    shapes = {}
    for m in metas:
        for s in m["shapes"]:
            shapes[s] = shapes.get(s, 0) + 1
    res.extra["records"] = {
        "total": len(metas),
        "workload": sum(1 for m in metas if m["kind"] == "workload"),
        "cluster": sum(1 for m in metas if m["kind"] == "cluster"),
        "with_flags": sum(1 for m in metas if m["flags"]),
        "not_loaded": sum(1 for m in metas if not m["loaded"]),
        "formats": {f: sum(1 for m in metas if m["fmt"] == f) for f in ("json", "yaml", "yml")},
        "policies": pol, "shapes": shapes,
        "slo_modes": {s: sum(1 for m in metas if m["slo_mode"] == s) for s in ("none", "some", "all", "all_same")},
        "task_graphs_projected": sum(m["n_taskgraphs"] for m in metas),
        "completion_events": sum(m["n_events"] for m in metas),
        "completion_orders": {o: sum(1 for m in metas if m["loop_mode"] == o) for o in ("fifo", "lifo", "random")},
    }
    res.extra["clauses_exercised"] = dict(sorted(clause_counts.items()))
    never = [c for c in ALL_CLAUSES if clause_counts.get(c, 0) == 0]
    res.extra["clauses_never_exercised"] = never
    res.extra["batch_tlc"] = [{"records": st["n"], "load_s": round(st["t_load"], 2), "total_s": round(st["t_total"], 2),
                               "tlc_wall_s": round(st["tlc"].wall_s, 2)} for st in stats_list]
    res.extra["failing_records_per_key"] = {k: len(v) for k, v in sorted(fail_groups.items())}
    failed_ids = {f["id"] for v in fail_groups.values() for f in v}
    for m in metas[:3] + [m for m in metas if m["id"].startswith("w")][:3] + [m for m in metas if m["kind"] == "cluster"][:1]:
        res.samples.append({"record": m["id"], "policies": m["policies"], "format": m["fmt"], "flags": m["flags"],
                            "task_graphs": m["n_taskgraphs"], "completions": m["n_events"],
                            "verdict": "violation" if m["id"] in failed_ids else "all exercised clauses hold"})
    for key, fl in sorted(fail_groups.items()):
        fl.sort(key=lambda f: (not f["id"].startswith("dir:"), _size(f), f["id"]))
        f = fl[0]
        what = {
            "C19.load": "a valid description could not be instantiated: ",
        }.get(f["clause"], "") + f"{f['clause']} fails on record {f['id']}" + (f" [{f['kind']}]" if f["kind"] else "") + \
            f" ({len(fl)} record(s))"
        res.violate(
            f["clause"], what,
            {"record": f["id"], "kind": f["kind"], "witness_expected_got": f["witness"], "file_format": f["item"]["fmt"],
             "file_content": f["file"], "flags": f["item"]["desc"].get("flags"), "lane": f["item"].get("lane", "as main.py"),
             "abstract": f["item"], "objects": f["objs"], "other_failing_records": [x["id"] for x in fl[1:40]]},
            key=key,
        )


ALL_CLAUSES = [
    "C19.load", "C19.graph_iso", "C19.replication", "C19.node_attrs", "C19.profile", "C19.strategy", "C19.resources",
    "C19.policy_params", "C19.override_slo", "C19.override_arrival_period", "C19.override_num_invocation",
    "C19.override_poisson_arrival_rate", "C19.override_gamma_coefficient", "C19.release_fixed", "C19.release_periodic",
    "C19.release_poisson", "C19.release_gamma", "C19.closed_loop_initial", "C19.closed_loop_inflight",
    "C19.closed_loop_total", "C19.fresh_copy", "C19.deadline", "C19.workers",
]


def _job(kind, a, b):
    return model_check(a) if kind == "M" else process_chunk(a, b)


def run(tier: str) -> CheckResult:
    res = CheckResult("C19", tier)
    res.assumptions = list(ASSUMPTIONS)
    items = population(tier)
    nchunks = 4 if tier == "quick" else 15
    jobs = [("M", tier, None)] + [("T", k, items[k::nchunks]) for k in range(nchunks)]
    out = parallel(_job, jobs, procs=len(jobs))
    res.merge(out[0])
    report(res, out[1:])
    res.notes.append(
        "--override_num_invocation is honoured for the fixed policy only (Conv.overrideNPolicies); its help text says "
        "'all TaskGraphs' but poisson / gamma / closed_loop keep the declared count — treated as a convention, not accused"
    )
    # closed loop inside real simulations: in-flight <= concurrency and N in total (invariants C19_ClosedLoop*,
    # evaluated by SimTrace on every state of every closed-loop world of the shared sim corpus)
    from . import simprops

    simprops.check("C19", tier, res)
    return res


def replay(d) -> int:
    """re-run one stored counterexample against the current tree"""
    item = d.get("detail", {}).get("abstract")
    if not item:
        return 0
    item = {k: v for k, v in item.items() if k != "lane"}
    item["id"] = item["id"].split("+")[0]
    st = process_chunk(0, [item])
    for f in st["failures"]:
        print(f"REPRODUCED {f['id']} {f['clause']} {f['kind']} witness={json.dumps(f['witness'])[:600]}")
    if not st["failures"]:
        print("not reproduced: every exercised clause holds on this tree")
    return 1 if st["failures"] else 0
