"""C17 — graph algorithms agree with their definitions on every DAG.

M: TLC model-checks the definitions of spec/Dag.tla against each other on every
   graph of a small universe (spec/DagMC.tla): both longest-weight definitions
   agree, a topological order exists exactly on acyclic graphs, the depth table
   equals the recursion over parents and the longest chain, path enumeration
   equals the polynomial path predicate, ...
T: the harness builds real `Graph` / `TaskGraph` / `JobGraph` objects for
   enumerated and random graphs (several insertion orders of the same abstract
   graph, equal-weight ties, graphs with cycles), calls the public methods and
   records (graph, method, args, result | exception type).  The records are
   written as JSON batches and judged by TLC against the definitions
   (spec/DagTrace.tla, relational: any valid order / path is accepted).  Python
   never decides whether an answer is right; it only groups TLC's verdicts.
"""
from __future__ import annotations

import itertools
import json
import os
import re
import signal
import time

from . import mcgen, tlaval, tlc
from .common import CheckResult, Scratch, parallel, rng
from .realobj import mk_job, mk_profile, mk_strategy, mk_task, ns

BFMAX = 6  # graphs up to this size are judged with the brute-force definitions
MC_INV = [
    "MCTypeOK",
    "MC_CycleDefsAgree",
    "MC_TopoIffDag",
    "MC_BfsIsTopo",
    "MC_Depth",
    "MC_Dependent",
    "MC_Paths",
    "MC_LongestAgree",
    "MC_Traversals",
]
JAVA_OPTS = mcgen.LIB_OPT + ["-Xmx3g", "-Xss256m", "-XX:ParallelGCThreads=2"]
CALL_TIMEOUT_S = 20


# ---------------------------------------------------------------------------
# abstract graphs ("builds"): which nodes / edges, and in which order the public
# mutators are called


def _pairs_upper(n):
    return [(a, b) for a in range(1, n + 1) for b in range(a + 1, n + 1)]


def upper_dags(n):
    """all DAGs on 1..n whose edges go from a smaller to a larger label"""
    pairs = _pairs_upper(n)
    for mask in range(1 << len(pairs)):
        yield tuple(p for k, p in enumerate(pairs) if mask >> k & 1)


_LAB_CACHE = {}


def labelled_dags(n):
    """all labelled DAGs on 1..n = all relabellings of the upper-triangular ones (no
    cycle test in Python); sorted, deterministic"""
    if n not in _LAB_CACHE:
        seen = set()
        for perm in itertools.permutations(range(1, n + 1)):
            for es in upper_dags(n):
                seen.add(tuple(sorted((perm[a - 1], perm[b - 1]) for a, b in es)))
        _LAB_CACHE[n] = sorted(seen)
    return _LAB_CACHE[n]


def cyclic_digraphs(n, loops):
    """all digraphs on 1..n that are not labelled DAGs (i.e. have a cycle)"""
    dags = set(labelled_dags(n))
    pairs = [(a, b) for a in range(1, n + 1) for b in range(1, n + 1) if loops or a != b]
    for mask in range(1, 1 << len(pairs)):
        es = tuple(p for k, p in enumerate(pairs) if mask >> k & 1)
        if es not in dags:
            yield es


def child_orders(n, edges):
    """all edge sequences that differ in the order of some node's children (edges grouped
    by parent, parents ascending)"""
    per_parent = []
    for a in range(1, n + 1):
        cs = [b for (x, b) in edges if x == a]
        per_parent.append([[(a, b) for b in p] for p in itertools.permutations(cs)])
    for combo in itertools.product(*per_parent):
        yield [e for grp in combo for e in grp]


def build(n, nodes, edges, style, cat, cyclic=False):
    return {"n": n, "nodes": list(nodes), "edges": [list(e) for e in edges], "style": style, "cat": cat,
            "cyclic": cyclic}


def random_dag(r, n, p):
    order = list(range(1, n + 1))
    r.shuffle(order)
    edges = [(order[i], order[j]) for i in range(n) for j in range(i + 1, n) if r.random() < p]
    r.shuffle(edges)
    nodes = list(range(1, n + 1))
    r.shuffle(nodes)
    return nodes, edges


def add_cycle(r, n, edges):
    """close a cycle: walk along children from a random edge and add an edge back"""
    edges = list(edges)
    if not edges or r.random() < 0.15:
        v = r.randint(1, n)
        if (v, v) not in edges:
            edges.insert(r.randint(0, len(edges)), (v, v))
        return edges
    a, b = r.choice(edges)
    tip = b
    for _ in range(r.randint(0, 4)):
        nxt = [y for (x, y) in edges if x == tip]
        if not nxt:
            break
        tip = r.choice(nxt)
    if (tip, a) not in edges:
        edges.insert(r.randint(0, len(edges)), (tip, a))
    return edges


def parts_for(tier):
    """[(part name, generator key, args, estimated cost)] — a part is generated and exercised
    inside the worker process that judges it; its content depends on (VERIF_SEED, name) only"""
    q = tier == "quick"
    out = [("lab<=3", "lab", (1, 3, 0, 1), 3)]
    for k in range(12):
        out.append((f"lab4/{k}", "lab", (4, 4, k, 12), 11))
    shards = 12 if q else 16
    for k in range(shards):
        out.append((f"ut5/{k}", "ut", (5, k, shards, 1 if q else 3), 9 if q else 14))
    for k in range(6 if q else 48):
        out.append((f"rand/{k}", "rand", (k, 10 if q else 20), 12 if q else 30))
    out.append(("cyc<=3", "cyc", (3, 0, 1, None), 6))
    if q:
        out.append(("cyc4/sample", "cyc", (4, 0, 1, 400), 5))
        out.append(("cycrand/0", "cycrand", (0, 40), 4))
    else:
        for k in range(4):
            out.append((f"cyc4/{k}", "cyc", (4, k, 4, None), 12))
        for k in range(4):
            out.append((f"cycrand/{k}", "cycrand", (k, 100), 10))
        for k in range(24):
            out.append((f"lab5/{k}", "lab5", (k, 24), 55))
        for k in range(96):
            out.append((f"ut6/{k}", "ut", (6, k, 96, 1), 45))
    return out


def batches_for(tier, groups):
    """distribute the parts over `groups` batches of similar estimated cost (one TLC run each)"""
    parts = sorted(parts_for(tier), key=lambda p: (-p[3], p[0]))
    bins = [[0, []] for _ in range(groups)]
    for p in parts:
        tgt = min(bins, key=lambda x: x[0])
        tgt[0] += p[3]
        tgt[1].append(p[:3])
    return [(f"batch{k}", sorted(b[1])) for k, b in enumerate(bins) if b[1]]


def gen_builds(key, args, tier):
    """yield (build, kinds) for one batch; deterministic in (VERIF_SEED, key, args)"""
    if key == "lab":
        lo, hi, k, shards = args
        idx = 0
        for n in range(lo, hi + 1):
            for es in labelled_dags(n):
                idx += 1
                if idx % shards != k:
                    continue
                nodes = list(range(1, n + 1))
                for ci, seq in enumerate(child_orders(n, es)):
                    # node order = label order (all labelled DAGs are enumerated, which covers
                    # every insertion order up to renaming); every order of every child list
                    if ci == 0:
                        yield build(n, nodes, seq, "edges", "lab"), ("graph",)
                        yield build(n, nodes, seq, "mapping", "lab"), ("graph", "task")
                        # parents' lists in the opposite order (edges inserted parent-descending)
                        yield build(n, nodes[::-1], seq[::-1], "edges", "lab"), ("graph", "job")
                    elif ci % 2 == 1:
                        yield build(n, nodes, seq, "edges", "lab"), ("graph", "task")
                    else:
                        yield build(n, nodes, seq, "mapping", "lab"), ("graph", "task")
    elif key == "lab5":
        k, shards = args
        r = rng(f"c17:lab5:{k}")
        for idx, es in enumerate(labelled_dags(5)):
            if idx % shards != k:
                continue
            seq = list(es)
            r.shuffle(seq)
            yield build(5, [1, 2, 3, 4, 5], seq, r.choice(["edges", "mapping"]), "lab5"), ("graph",)
    elif key == "ut":
        n, k, shards, nperm = args
        r = rng(f"c17:ut{n}:{k}")
        for idx, es in enumerate(upper_dags(n)):
            if idx % shards != k:
                continue
            nodes = list(range(1, n + 1))
            kinds = ("graph", "task") if (n == 5 or idx % 8 == 0) else ("graph",)
            yield build(n, nodes, es, "mapping", f"ut{n}"), kinds
            for _ in range(nperm):
                # the same abstract DAG inserted in another node order / child order
                perm = nodes[:]
                r.shuffle(perm)
                seq = list(es)
                r.shuffle(seq)
                yield build(n, perm, seq, r.choice(["edges", "mapping"]), f"ut{n}perm"), ("graph",)
    elif key == "rand":
        k, count = args
        r = rng(f"c17:rand:{k}")
        for j in range(count):
            n = r.choice([7, 8, 9, 10, 12, 14, 16, 20, 24, 28, 32, 36, 40, 40])
            p = r.choice([0.08, 0.15, 0.25, 0.4, 0.7]) if n <= 20 else r.choice([0.04, 0.08, 0.15, 0.3])
            nodes, edges = random_dag(r, n, p)
            kinds = ("graph", "task") if j % 2 == 0 else ("graph", "job")
            yield build(n, nodes, edges, r.choice(["edges", "mapping"]), "rand"), kinds
    elif key == "cyc":
        n, k, shards, sample = args
        r = rng(f"c17:cyc:{n}")
        allc = []
        for m in range(1, n + 1):
            allc += [(m, es) for es in cyclic_digraphs(m, loops=(m <= 3))]
        if sample is not None:
            allc = [x for x in allc if x[0] == n]
            allc = r.sample(allc, min(sample, len(allc)))
        for idx, (m, es) in enumerate(allc):
            if idx % shards != k:
                continue
            seq = list(es)
            r.shuffle(seq)
            nodes = list(range(1, m + 1))
            r.shuffle(nodes)
            kinds = ("graph", "task", "job") if idx % 4 == 0 else ("graph",)
            yield build(m, nodes, seq, r.choice(["edges", "mapping"]), f"cyc{m}", cyclic=True), kinds
    elif key == "cycrand":
        k, count = args
        r = rng(f"c17:cycrand:{k}")
        for j in range(count):
            n = r.choice([5, 6, 8, 10, 15, 20, 30, 40])
            nodes, edges = random_dag(r, n, r.choice([0.1, 0.2, 0.4]))
            for _ in range(r.randint(1, 3)):
                edges = add_cycle(r, n, edges)
            kinds = ("graph", "task") if j % 3 == 0 else ("graph",)
            yield build(n, nodes, edges, r.choice(["edges", "mapping"]), "cycrand", cyclic=True), kinds
    else:
        raise AssertionError(key)


# ---------------------------------------------------------------------------
# real objects


def mapping_of(b):
    """[(node, [children in insertion order])] in key order of the mapping handed to the
    constructor"""
    return [(v, [c for (a, c) in b["edges"] if a == v]) for v in b["nodes"]]


def make(kind, b, weights):
    """Build the real object through its public constructor / mutators.  Returns
    (object, node id -> node object, node object -> node id)."""
    N = ns()
    n = b["n"]
    dem = [{"name": "cpu", "id": "any", "q": 1}]
    if kind == "graph":
        import importlib

        cls = importlib.import_module("workload.graph").Graph
        obj = {v: v for v in range(1, n + 1)}
        back = lambda x: x  # noqa: E731
        new = lambda m: cls(m)  # noqa: E731
    elif kind == "task":
        obj = {}
        for v in range(1, n + 1):
            strategies = [mk_strategy(dem, runtime=weights[v - 1])]
            if v % 2 == 0 and weights[v - 1] > 1:
                # the slowest strategy is the one that counts
                strategies.insert(0, mk_strategy(dem, runtime=weights[v - 1] - 1))
            obj[v] = mk_task(f"t{v}", graph="G", profile=mk_profile(f"p{v}", strategies), timestamp=0)
        new = lambda m: N.TaskGraph(name="G", tasks=m)  # noqa: E731
    elif kind == "job":
        obj = {}
        for v in range(1, n + 1):
            strategies = [mk_strategy(dem, runtime=weights[v - 1])]
            if v % 2 == 1 and weights[v - 1] > 1:
                strategies.append(mk_strategy(dem, runtime=1))
            obj[v] = mk_job(f"j{v}", mk_profile(f"p{v}", strategies))
        new = lambda m: N.JobGraph(name="J", jobs=m)  # noqa: E731
    else:
        raise AssertionError(kind)
    if kind != "graph":
        ids = {id(o): v for v, o in obj.items()}
        back = lambda x: ids[id(x)]  # noqa: E731
    if b["style"] == "mapping":
        g = new({obj[v]: [obj[c] for c in cs] for v, cs in mapping_of(b)})
    else:
        g = new({})
        for v in b["nodes"]:
            g.add_node(obj[v])
        for a, c in b["edges"]:
            g.add_child(obj[a], obj[c])
    return g, obj, back


class _Timeout(Exception):
    pass


def _alarm(signum, frame):
    raise _Timeout()


def _as_bool(x):
    if not isinstance(x, bool):
        raise TypeError(f"not a bool: {x!r}")
    return x


def _as_int(x):
    if isinstance(x, bool) or not isinstance(x, int):
        raise TypeError(f"not an int: {x!r}")
    return x


def invoke(g, obj, back, n, method, args, w):
    """(thunk calling the public method, projection of its value to node ids / ints / bools,
    cap on the number of items drawn from a generator)"""
    N = ns()
    seq = lambda xs: [_as_int(back(x)) for x in xs]  # noqa: E731
    t_us = lambda t: _as_int(t.to(N.EventTime.Unit.US).time)  # noqa: E731
    cap = 6 * n + 10
    if method == "topological_sort":
        return g.topological_sort, seq, None
    if method == "get_sources":
        return g.get_sources, seq, None
    if method == "get_source_tasks":
        return g.get_source_tasks, seq, None
    if method == "get_sink_tasks":
        return g.get_sink_tasks, seq, None
    if method == "get_longest_path":
        if not w:
            return g.get_longest_path, seq, None
        return (lambda: g.get_longest_path(weights=lambda v: w[back(v) - 1])), seq, None
    if method == "critical_path_runtime":
        return (lambda: g.critical_path_runtime), t_us, None
    if method == "completion_time":
        return (lambda: g.completion_time), t_us, None
    if method == "get_node_depth":
        return (lambda: g.get_node_depth(obj[args[0]])), _as_int, None
    if method == "are_dependent":
        return (lambda: g.are_dependent(obj[args[0]], obj[args[1]])), _as_bool, None
    if method == "breadth_first":
        return g.breadth_first, seq, cap
    if method == "depth_first_all":
        return g.depth_first, seq, cap
    if method == "depth_first":
        return (lambda: g.depth_first(obj[args[0]])), seq, cap
    if method == "breadth_first_from":
        return (lambda: g.breadth_first(obj[args[0]])), seq, cap
    raise AssertionError(method)


class Recorder:
    """Calls public methods and records (method, args, result | exception type)."""

    def __init__(self):
        self.calls = []  # records of the current graph
        self.next_id = 1
        self.meta = {}  # id -> (graph index, kind, build weights, method, args, weights, got)

    def perform(self, gi, b, specs):
        """specs: [(kind, build weights, method, args, w)] — all on the same abstract graph"""
        cache = {}
        for kind, bw, method, args, w in specs:
            ck = (kind, tuple(bw))
            if ck not in cache:
                cache[ck] = make(kind, b, bw)
            g, obj, back = cache[ck]
            raised, result, got = "", 0, None
            signal.setitimer(signal.ITIMER_REAL, CALL_TIMEOUT_S)
            try:
                fn, proj, cap = invoke(g, obj, back, b["n"], method, args, w)
                val = fn()
                if cap is not None:
                    val = list(itertools.islice(val, cap))
                result = proj(val)
                got = result
            except _Timeout:
                raised, got = "Timeout", f"no answer within {CALL_TIMEOUT_S}s"
            except Exception as ex:  # the exception type is part of the record
                raised = type(ex).__name__
                got = f"{type(ex).__name__}: {ex}"[:200]
            finally:
                signal.setitimer(signal.ITIMER_REAL, 0)
            cid = self.next_id
            self.next_id += 1
            self.calls.append({"id": cid, "method": method, "args": list(args), "w": list(w), "result": result,
                               "raised": raised})
            self.meta[cid] = (gi, kind, list(bw), method, list(args), list(w), got)


def weight_vectors(r, n, count):
    out = [[1] * n]  # every path of equal length ties
    if count >= 2:
        out.append([r.choice([1, 2, 3]) for _ in range(n)])  # many ties
    if count >= 3:
        out.append([r.randint(1, 1000) for _ in range(n)])
    return out


def plan(b, kinds, r, tier):
    """the calls to make on one abstract graph: [(kind, build weights, method, args, w)]"""
    n = b["n"]
    cyc = b["cyclic"]
    nodes = list(range(1, n + 1))
    big = n > 6
    q = tier == "quick"
    wvs = weight_vectors(r, n, 3)
    specs = []

    def add(kind, bw, method, args=(), w=()):
        specs.append((kind, list(bw), method, list(args), list(w)))

    if "graph" in kinds:
        add("graph", [], "topological_sort")
        add("graph", [], "get_sources")
        add("graph", [], "get_longest_path")  # default weights
        for w in wvs:
            add("graph", [], "get_longest_path", (), w)
        dn = nodes if not big else r.sample(nodes, min(n, 10 if q else 16))
        for v in dn if not cyc else dn[:3]:
            add("graph", [], "get_node_depth", [v])
        pairs = [(a, c) for a in nodes for c in nodes if a != c]
        if cyc:
            pairs = r.sample(pairs, min(len(pairs), 4))
        elif big:
            pairs = r.sample(pairs, min(len(pairs), 60 if q else 120))
        for a, c in pairs:
            add("graph", [], "are_dependent", [a, c])
        if not cyc:
            add("graph", [], "breadth_first")
            add("graph", [], "depth_first_all")
            starts = nodes if not big else r.sample(nodes, min(n, 12 if q else 20))
            for v in starts:
                add("graph", [], "depth_first", [v])
            if b["style"] == "edges" or big:
                # outside the property statement, informational only
                for v in starts[:4]:
                    add("graph", [], "breadth_first_from", [v])
    for kind in ("task", "job"):
        if kind not in kinds:
            continue
        for w in wvs[:2] if kind == "task" else wvs[1:3]:
            add(kind, w, "critical_path_runtime", (), w)
            if kind == "job":
                add(kind, w, "completion_time", (), w)
                add(kind, w, "get_sources")
            else:
                add(kind, w, "get_source_tasks")
                add(kind, w, "get_sink_tasks")
            # the inherited algorithms on real Task / Job nodes
            add(kind, w, "topological_sort")
            if not cyc:
                v, u = r.choice(nodes), r.choice(nodes)
                add(kind, w, "breadth_first")
                add(kind, w, "depth_first", [v])
                add(kind, w, "get_node_depth", [v])
                if u != v:
                    add(kind, w, "are_dependent", [u, v])
    return specs


# ---------------------------------------------------------------------------
# one batch = one worker process = one TLC run



_FAIL_RE = re.compile(r'^<<\s*"@@",\s*(\d+),\s*"([^"]*)",\s*"([^"]*)",\s*(.*?)\s*>>$', re.S)


def _tlc_in(scratch, *a, **k):
    """run_tlc with TLC's metadir inside our scratch directory (not a shared /tmp/tlcmeta_*)"""
    import tempfile

    old = tempfile.tempdir
    tempfile.tempdir = scratch
    try:
        return tlc.run_tlc(*a, **k)
    finally:
        tempfile.tempdir = old


def judge_batch(scratch, name, entries, nrecords, workers=1):
    """Write the JSON batch, run TLC on DagTrace, return (failures, counts, TLCResult).
    failures: [(id, clause, reason, expected)]"""
    safe = re.sub(r"\W", "_", name)
    path = os.path.join(scratch, f"batch_{safe}.json")
    with open(path, "w") as f:
        json.dump(entries, f, separators=(",", ":"))
    mod, cf = mcgen.write_mc(
        scratch, "DagTrace", {"File": path, "BFMax": BFMAX, "Chains": max(1, workers)},
        name=f"MC_DagTrace_{safe}", invariants=["TypeOK"],
    )
    r = _tlc_in(scratch, mod, cf, workers=max(1, workers), coverage=False, deadlock=False, java_opts=JAVA_OPTS,
                timeout=3300)
    if not r.ok:
        raise tlc.TLCMachineryError(f"DagTrace batch {name}: {r.violation_kind} {r.violation_name}\n{r.stdout[-3000:]}")
    fails, done = [], []
    lines = r.stdout.splitlines()
    k = 0
    while k < len(lines):
        line = lines[k]
        k += 1
        if not re.match(r'^<< ?"@@', line):
            continue
        # TLC pretty-prints long values over several lines
        txt = line
        while txt.count("<<") > txt.count(">>") and k < len(lines):
            txt += " " + lines[k].strip()
            k += 1
        m = _FAIL_RE.match(txt)
        if m:
            # the expected value is parsed later, only for the examples that are kept
            fails.append((int(m.group(1)), m.group(2), m.group(3), m.group(4)))
            continue
        val = tlaval.parse(txt)
        if val[0] != "@@done":
            raise tlc.TLCMachineryError(f"DagTrace batch {name}: unparsable verdict line {txt[:300]}")
        done.append(val)
    counts, ngraphs, nfail = {}, 0, 0
    for _, _chain, glen, cnt, nf in done:
        ngraphs += glen
        nfail += nf
        for cl, v in (dict(cnt) if cnt else {}).items():
            counts[cl] = counts.get(cl, 0) + v
    if (len(done) != max(1, workers) or ngraphs != len(entries) or sum(counts.values()) != nrecords
            or nfail != len(fails)):
        raise tlc.TLCMachineryError(
            f"DagTrace batch {name}: {len(done)} chains finished, judged {ngraphs}/{len(entries)} graphs, "
            f"{sum(counts.values())}/{nrecords} records, {nfail} vs {len(fails)} failures reported\n{r.stdout[-3000:]}"
        )
    return fails, counts, r


def _printable(v):
    if isinstance(v, (set, frozenset)):
        return sorted(_printable(x) for x in v)
    if isinstance(v, (list, tuple)):
        return [_printable(x) for x in v]
    if isinstance(v, dict):
        return {str(k): _printable(x) for k, x in v.items()}
    return v


QUALIFIED = {"critical_path_runtime", "completion_time", "get_source_tasks", "get_sink_tasks"}
KIND_CLASS = {"graph": "Graph", "task": "TaskGraph", "job": "JobGraph"}


def _fail_order(f):
    b = f["detail"]["build"]
    return (f["size"], b["style"], b["nodes"], b["edges"], f["detail"]["call"])


def _call_text(method, args, w):
    if method == "get_longest_path":
        return f"get_longest_path(weights=node -> {w}[node - 1])" if w else "get_longest_path()"
    if method in ("critical_path_runtime", "completion_time"):
        return f"{method}  # slowest runtimes of nodes 1..n: {w}"
    if method == "depth_first_all":
        return "depth_first()"
    if method == "breadth_first_from":
        return f"breadth_first({args[0]})"
    return f"{method}({', '.join(map(str, args))})"


def finding_key(kind, method, reason):
    m = f"{KIND_CLASS[kind]}.{method}" if method in QUALIFIED else method
    return f"{m}:{reason}"


def run_batch(name, parts, tier, workers):
    """Generate, exercise, judge.  Returns a plain dict (picklable)."""
    t0 = time.time()
    signal.signal(signal.SIGALRM, _alarm)
    rec = Recorder()
    entries, builds = [], []
    per_method = {}
    n_cyc = 0
    per_part = {}
    for pname, key, args in parts:
        r = rng(f"c17:calls:{pname}")
        for b, kinds in gen_builds(key, args, tier):
            gi = len(entries)
            rec.calls = []
            rec.perform(gi, b, plan(b, kinds, r, tier))
            builds.append((b, kinds, pname))
            n_cyc += 1 if b["cyclic"] else 0
            entries.append({"g": gi, "n": b["n"], "edges": b["edges"], "calls": rec.calls})
            pp = per_part.setdefault(pname, [0, 0])
            pp[0] += 1
            pp[1] += len(rec.calls)
            for c in rec.calls:
                per_method[c["method"]] = per_method.get(c["method"], 0) + 1
    nrecords = rec.next_id - 1
    t1 = time.time()
    with Scratch() as scratch:
        fails, counts, tr = judge_batch(scratch, name, entries, nrecords, workers)
    out_f = []
    for cid, clause, reason, exp in fails:
        gi, kind, bw, method, cargs, w, got = rec.meta[cid]
        b, _, pname = builds[gi]
        out_f.append(
            {
                "clause": clause,
                "reason": reason,
                "key": finding_key(kind, method, reason),
                "size": (b["n"], len(b["edges"]), len(cargs), sum(w)),
                "detail": {
                    "class": KIND_CLASS[kind],
                    "n": b["n"],
                    "construction": (
                        {"style": "constructor mapping {node: [children]}", "mapping": mapping_of(b)}
                        if b["style"] == "mapping"
                        else {"style": "add_node(v) for v in nodes; add_child(a, c) for (a, c) in edges",
                              "nodes": b["nodes"], "edges": b["edges"]}
                    ),
                    "build": b,
                    "call": _call_text(method, cargs, w),
                    "method": method,
                    "args": cargs,
                    "weights": w,
                    "node_runtimes": bw,
                    "got": got,
                    "expected": exp,
                    "part": pname,
                },
            }
        )
    out_f.sort(key=_fail_order)
    grouped = {}
    for f in out_f:
        g = grouped.setdefault((f["clause"], f["key"]), {"count": 0, "examples": []})
        g["count"] += 1
        if len(g["examples"]) < 4:
            try:
                f["detail"]["expected"] = _printable(tlaval.parse(f["detail"]["expected"]))
            except tlaval.ParseError:
                pass
            g["examples"].append(f)
    failing_graphs = {id(f["detail"]["build"]) for f in out_f}
    sample = None
    if entries:
        gi = len(entries) // 2
        e = entries[gi]
        sample = {
            "part": builds[gi][2],
            "graph": {"n": e["n"], "edges": e["edges"], "style": builds[gi][0]["style"], "nodes": builds[gi][0]["nodes"]},
            "records": [
                {"method": c["method"], "args": c["args"], "w": c["w"],
                 "result": c["result"] if not c["raised"] else None, "raised": c["raised"]}
                for c in {c["method"]: c for c in reversed(e["calls"])}.values()
            ][:8],
            "verdict": "accepted by DagTrace" if id(builds[gi][0]) not in failing_graphs else "see violations",
        }
    return {
        "name": name,
        "graphs": len(entries),
        "cyclic_graphs": n_cyc,
        "records": nrecords,
        "per_method": per_method,
        "per_clause": counts,
        "per_part": per_part,
        "failures": grouped,
        "sample": sample,
        "wall_exercise_s": round(t1 - t0, 2),
        "wall_tlc_s": round(tr.wall_s, 2),
        "tlc_states": tr.distinct,
    }


def run_mc(name, consts, workers):
    with Scratch() as scratch:
        mod, cf = mcgen.write_mc(
            scratch, "DagMC", consts, name="MC_DagMC_" + re.sub(r"\W", "_", name), spec="MCSpec", invariants=MC_INV
        )
        r = _tlc_in(scratch, mod, cf, workers=workers, deadlock=False,
                    java_opts=mcgen.LIB_OPT + ["-XX:ParallelGCThreads=2"], timeout=3400)
    r.stdout = r.stdout[-4000:]
    return {"mc": name, "consts": consts, "tlc": r}


def _job(kind, *a):
    if kind == "mc":
        return run_mc(*a)
    return run_batch(*a)


# ---------------------------------------------------------------------------


WHAT = {
    "C17.topo_order": "topological_sort does not list every node once after all its predecessors",
    "C17.topo_cycle": "a cycle is not reported as RuntimeError (or reported on an acyclic graph)",
    "C17.longest_path": "get_longest_path is not a source-to-sink path of maximum total weight",
    "C17.critical_path": "critical-path runtime differs from the maximum source-to-sink path weight",
    "C17.dependent": "are_dependent disagrees with reachability",
    "C17.depth": "get_node_depth differs from 1 + longest chain of parents",
    "C17.sources": "sources do not match the graph",
    "C17.sinks": "sinks do not match the graph",
    "C17.bfs": "breadth-first iteration does not yield every node once with parents first",
    "C17.dfs": "depth-first iteration does not yield exactly the reachable nodes, each once",
}


def run(tier: str) -> CheckResult:
    res = CheckResult("C17", tier)
    res.assumptions = [
        "TLC evaluates the definitions of spec/Dag.tla faithfully; the polynomial forms used above "
        f"{BFMAX} nodes (fixpoint reachability, Kahn order, folded depth / longest-weight tables) are "
        "cross-checked against the brute-force forms by DagMC only up to the model-checked universe",
        "graphs are simple (no parallel edges), nodes are hashable and truthy (ints >= 1, Task, Job); weights "
        "are positive integers; are_dependent is only judged on distinct nodes",
        "insertion-order coverage: all labelled DAGs on <= 4 nodes (equivalent to all node insertion orders "
        "up to renaming) x every order of every child list x {add_node/add_child, constructor mapping}; "
        "larger graphs with sampled node / edge insertion orders",
        "methods judged on cyclic graphs: topological_sort, get_longest_path, get_node_depth, are_dependent, "
        "critical_path_runtime, completion_time (must raise RuntimeError), sources / sinks; traversals are "
        "only judged on DAGs",
        "depth_first() without a start node is judged as depth-first iteration from the sources; "
        "breadth_first(node) is outside the statement and only reported as info.bfs_from",
        "Task / Job nodes: distinct names, one timestamp, slo unset, probability 1 (no conditional branches)",
    ]
    q = tier == "quick"
    jobs = []
    if q:
        jobs.append(("mc", "DagMC/N4W2", {"MCN": 4, "MCW": 2, "MCLoops": False, "MCUpper": False}, 3))
        jobs.append(("mc", "DagMC/N3W3loops", {"MCN": 3, "MCW": 3, "MCLoops": True, "MCUpper": False}, 1))
    else:
        jobs.append(("mc", "DagMC/N4W3loops", {"MCN": 4, "MCW": 3, "MCLoops": True, "MCUpper": False}, 2))
        jobs.append(("mc", "DagMC/N5W2upper", {"MCN": 5, "MCW": 2, "MCLoops": False, "MCUpper": True}, 2))
    labelled_dags(4)  # computed once before forking
    if not q:
        labelled_dags(5)
    # few JVMs with several workers each (every JVM start costs seconds of CPU)
    groups, workers = (5, 2) if q else (30, 2)
    for name, parts in batches_for(tier, groups):
        jobs.append(("batch", name, parts, tier, workers))
    outs = parallel(_job, jobs, procs=len(jobs) if q else 7)

    per_method, per_clause, batches = {}, {}, []
    batch_samples = []
    by_key = {}
    graphs = cyc = 0
    for o in outs:
        if "mc" in o:
            r = o["tlc"]
            res.add_tlc(o["mc"], r)
            res.extra.setdefault("mc_constants", {})[o["mc"]] = o["consts"]
            if not r.ok:
                # the definitions disagree with each other: the oracle is broken, not the code
                raise tlc.TLCMachineryError(
                    f"DagMC {o['consts']}: {r.violation_kind} {r.violation_name} violated\n{r.stdout[-3000:]}"
                )
            continue
        graphs += o["graphs"]
        cyc += o["cyclic_graphs"]
        res.traces_validated += o["records"]
        res.states += o["tlc_states"]
        for k, v in o["per_method"].items():
            per_method[k] = per_method.get(k, 0) + v
        for k, v in o["per_clause"].items():
            per_clause[k] = per_clause.get(k, 0) + v
        for ck, g in o["failures"].items():
            t = by_key.setdefault(ck, {"count": 0, "examples": []})
            t["count"] += g["count"]
            t["examples"] += g["examples"]
        batches.append({"name": o["name"], "parts": o["per_part"], "graphs": o["graphs"], "records": o["records"],
                        "wall_exercise_s": o["wall_exercise_s"], "wall_tlc_s": o["wall_tlc_s"]})
        if o["sample"] and len(batch_samples) < 3:
            batch_samples.append(o["sample"])

    unsupported = [ck for ck in by_key if ck[0].startswith("spec.")]
    if unsupported:
        raise tlc.TLCMachineryError(
            f"DagTrace could not judge some records: {by_key[unsupported[0]]['examples'][0]}"
        )

    info = {}
    failing_per_clause = {}
    for (clause, key), g in sorted(by_key.items()):
        fs = sorted(g["examples"], key=_fail_order)
        mn = fs[0]
        detail = dict(mn["detail"])
        detail["failing_records"] = g["count"]
        detail["other_examples"] = [
            {k: f["detail"][k] for k in ("class", "construction", "call", "weights", "got", "expected")}
            for f in fs[1:4]
        ]
        failing_per_clause[clause] = failing_per_clause.get(clause, 0) + g["count"]
        if clause.startswith("info."):
            info[key] = {"clause": clause, "failing_records": g["count"], "minimal": detail}
            continue
        res.violate(
            clause,
            f"{WHAT.get(clause, clause)}: {detail['class']} {detail['construction']} {detail['call']} -> "
            f"{detail['got']} ({mn['reason']}; {g['count']} failing records)",
            detail,
            key=key,
        )
        res.samples.append({"violation": clause, "key": key, "construction": detail["construction"],
                            "call": detail["call"], "weights": detail["weights"], "got": detail["got"],
                            "expected": detail["expected"]})
    res.samples = res.samples[:5] + batch_samples
    if info:
        res.extra["informational_outside_statement"] = info
        for k, v in info.items():
            res.notes.append(
                f"{k}: {v['failing_records']} records outside the property statement rejected by the "
                f"informational clause {v['clause']} (not a violation)"
            )
    res.extra.update(
        {
            "graphs": graphs,
            "cyclic_graphs": cyc,
            "records_per_method": dict(sorted(per_method.items())),
            "records_per_clause": dict(sorted(per_clause.items())),
            "failing_records_per_clause": failing_per_clause,
            "clauses_not_exercised": sorted(c for c in WHAT if per_clause.get(c, 0) == 0),
            "batches": batches,
            "bf_max_nodes": BFMAX,
        }
    )
    return res


def replay(d):
    """Re-run one stored counterexample against the repository and let TLC judge it again."""
    det = d["detail"]
    if "build" not in det:
        return 0
    signal.signal(signal.SIGALRM, _alarm)
    b = det["build"]
    kind = {v: k for k, v in KIND_CLASS.items()}[det["class"]]
    rec = Recorder()
    rec.perform(0, b, [(kind, det.get("node_runtimes", []), det["method"], det["args"], det["weights"])])
    with Scratch() as scratch:
        fails, _, _ = judge_batch(
            scratch, "replay", [{"g": 0, "n": b["n"], "edges": b["edges"], "calls": rec.calls}], 1
        )
    print("recorded now:", rec.calls[0], "got:", rec.meta[1][-1])
    print("TLC verdict:", [f[1:] for f in fails] if fails else "accepted")
    return 1 if fails else 0
