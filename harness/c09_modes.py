"""C09 — generated inputs for the workload modes of /repo other than the YAML / JSON workload description.

Every generator returns a *world*: mode, files (name, format, content), flags (`{DIR}` stands for the directory the files
are written to), the program to start (`main.py` of the repo or harness/c09_driver.py) and bookkeeping (features of the
input).  Nothing here looks at a trace or decides anything: the comparison of two runs is spec/Determinism.tla's.

modes
  alibaba_replay        `main.py --execution_mode=replay --replay_trace=alibaba`: pickled {job: [Task, ...]} traces in the
                        format of the Alibaba cluster trace (task name = <letter><index>[_<parent index>]*), DAGs listed in
                        topological / reverse / shuffled / joins-first order, multi-parent joins, several jobs per file, one
                        file with any release policy or several labelled files with Poisson arrivals
  lib_pylot             TaskLoaderPylot (JobGraph `pylot_dataflow` from a JSON workload + a Pylot callback profile)
  lib_clockwork_bursty  WorkloadLoaderClockworkBursty with small parameters
                        (both through harness/c09_driver.py: main.py constructs these loaders and then raises
                        NotImplementedError)
  stub_*                the execution modes / variants of main.py that cannot simulate (synthetic, benchmark, replay/pylot,
                        an Alibaba trace directory, Clockwork on an Alibaba trace): run once per tier so
                        that the evidence says how they end instead of not mentioning them
"""
from __future__ import annotations

import json
import math
import os
import pickle

from .common import rng

DRIVER = os.path.join(os.path.dirname(os.path.abspath(__file__)), "c09_driver.py")

# main.py --execution_mode=replay --replay_trace=clockwork_bursty is not started: WorkloadLoaderClockworkBursty() is built
# with its default arguments (3900 s of requests: ~4.4 million task graphs, > 60 CPU seconds and several GB before the
# NotImplementedError that follows it) and without the flags (its generator is np.random.default_rng(): unseeded).
NOT_STARTED = {
    "main.py --execution_mode=replay --replay_trace=clockwork_bursty":
        "WorkloadLoaderClockworkBursty() with default arguments generates ~4.4e6 task graphs (> 60 CPU s) and main.py "
        "then raises NotImplementedError; the loader itself is run with small arguments in mode lib_clockwork_bursty",
}


class Task:
    """pickled under the class name AlibabaTaskUnpickler maps to the loader's own dataclass"""

    def __init__(self, **kw):
        self.__dict__.update(kw)


def write_file(path, fmt, content):
    os.makedirs(os.path.dirname(path), exist_ok=True)
    if fmt == "alibaba_pkl":
        data = {job: [Task(**t) for t in tasks] for job, tasks in content.items()}
        with open(path, "wb") as f:
            pickle.dump(data, f, protocol=4)
    elif fmt == "json":
        with open(path, "w") as f:
            json.dump(content, f, indent=1)
    elif fmt in ("yaml", "yml"):
        import yaml

        with open(path, "w") as f:
            yaml.safe_dump(content, f, sort_keys=False)
    else:
        raise ValueError(fmt)


# ---------------------------------------------------------------------------
# DAG shapes (positions 0..n-1 in a topological order; edges parent -> child with parent < child)

SHAPES = ["fanin", "diamond", "two_joins", "layered", "chain_fanin", "wide_fanin"]
LISTINGS = ["joins_first", "reverse_topological", "shuffled", "topological"]


def gen_dag(r, shape):
    if shape == "fanin":
        k = r.randint(2, 3)
        return k + 1, [(i, k) for i in range(k)]
    if shape == "wide_fanin":
        k = r.randint(4, 5)
        return k + 1, [(i, k) for i in range(k)]
    if shape == "diamond":
        k = r.randint(2, 3)
        return k + 2, [(0, i) for i in range(1, k + 1)] + [(i, k + 1) for i in range(1, k + 1)]
    if shape == "two_joins":
        k = r.randint(3, 4)
        e = [(i, k) for i in sorted(r.sample(range(k), r.randint(2, k)))]
        e += [(i, k + 1) for i in sorted(r.sample(range(k + 1), r.randint(2, 3)))]
        e += [(i, k + 1) for i in range(k) if not any(i == p for p, _ in e)]  # no isolated job
        return k + 2, sorted(set(e), key=lambda x: (x[1], x[0]))
    if shape == "chain_fanin":
        # 0 -> 1, sources 2, 3 -> join 4 (parents 1, 2, 3) -> 5
        return 6, [(0, 1), (1, 4), (2, 4), (3, 4), (4, 5)]
    if shape == "layered":
        layers, n, e = [], 0, []
        for li in range(r.randint(2, 3)):
            w = r.randint(2, 3) if li == 0 else r.randint(1, 3)
            layers.append(list(range(n, n + w)))
            n += w
        for li in range(1, len(layers)):
            earlier = [x for lay in layers[:li] for x in lay]
            for c in layers[li]:
                ps = set(r.sample(layers[li - 1], r.randint(1, len(layers[li - 1]))))
                if len(earlier) > len(layers[li - 1]) and r.random() < 0.4:
                    ps.add(r.choice(earlier))
                e += [(p, c) for p in sorted(ps)]
            for p in layers[li - 1]:  # no isolated job: every node of a layer has a child in the next one
                if not any(p == p2 for p2, _ in e):
                    e.append((p, r.choice(layers[li])))
        return n, sorted(e, key=lambda x: (x[1], x[0]))
    raise ValueError(shape)


def listing_order(r, n, edges, listing):
    parents = {c: [p for p, c2 in edges if c2 == c] for c in range(n)}
    if listing == "topological":
        return list(range(n))
    if listing == "reverse_topological":
        return list(range(n - 1, -1, -1))
    order = list(range(n))
    r.shuffle(order)
    if listing == "joins_first":
        joins = [x for x in order if len(parents[x]) >= 2]
        order = joins + [x for x in order if x not in joins]
    return order


def longest_path(n, edges, weight):
    best = [0] * n
    for c in range(n):
        best[c] = weight[c] + max([best[p] for p, c2 in edges if c2 == c], default=0)
    return max(best)


def gen_alibaba_job(r, shape, listing, cp_target):
    """one DAG of an Alibaba trace: list of task records in `listing` order"""
    n, edges = gen_dag(r, shape)
    numbers = r.sample(range(1, 2 * n + 9), n)  # the index of a parent may be larger than the one of its child
    letters = [r.choice("MRJ") for _ in range(n)]
    raw = [r.uniform(20, 120) for _ in range(n)]
    f = cp_target / longest_path(n, edges, raw)
    dur = [round(x * f, 2) for x in raw]
    tasks = {}
    for c in range(n):
        ps = [p for p, c2 in edges if c2 == c]
        r.shuffle(ps)
        name = f"{letters[c]}{numbers[c]}" + "".join(f"_{numbers[p]}" for p in ps)
        cpu = r.choice([20, 40, 55, 75, 90, 100])
        tasks[c] = {"name": name, "instances": 1, "status": "Terminated", "start_time": 0.0, "end_time": dur[c],
                    "expected_duration": dur[c], "actual_duration": dur[c], "cpu_requested": float(cpu),
                    "cpu_usage": float(cpu), "mem_requested": 0.5, "mem_usage": 0.5}
    order = listing_order(r, n, edges, listing)
    pos = {x: i for i, x in enumerate(order)}
    late = sum(1 for c in range(n)
               if sum(1 for p, c2 in edges if c2 == c and pos[p] > pos[c]) >= 2)  # joins listed before >= 2 parents
    info = {"shape": shape, "listing": listing, "tasks": n, "joins": sum(1 for c in range(n) if sum(1 for _, c2 in edges if c2 == c) >= 2),
            "joins_listed_before_two_parents": late,
            "critical_path": longest_path(n, edges, [math.ceil(x) for x in dur])}
    return [tasks[x] for x in order], info


def gen_alibaba_file(r, k, fi, njobs, allow_short):
    jobs, infos = {}, []
    used = set()
    for ji in range(njobs):
        while True:
            jn = f"j_{r.randint(100, 9999999)}"
            if jn not in used:
                used.add(jn)
                break
        shape = SHAPES[(k + ji + 2 * fi) % len(SHAPES)] if ji == 0 else r.choice(SHAPES)
        listing = LISTINGS[(k // 2 + ji + fi) % len(LISTINGS)] if ji == 0 else r.choice(LISTINGS[:3])
        short = allow_short and ji == njobs - 1 and njobs >= 2
        # the loader releases only graphs with 100 < critical path < 1000 and draws again otherwise
        tasks, info = gen_alibaba_job(r, shape, listing, r.randint(40, 80) if short else r.randint(260, 640))
        for t in tasks:
            t["job"] = jn
        info["job"] = jn
        info["never_released"] = short
        jobs[jn] = tasks
        infos.append(info)
    return jobs, infos


# Clockwork needs loading strategies (the Alibaba work profiles have none): run once per tier as a stub_* world, not sampled
ALI_POLICIES = ["EDF", "FIFO", "LSF", "BranchPrediction"]
BP_POLICIES = ["random", "worst", "best", "max"]
ALI_RELEASE = ["fixed", "poisson", "gamma", "fixed", "fixed_gamma", "periodic", "poisson", "fixed"]
ALI_VARIANCES = [(0, 20), (10, 50), (0, 300), (0, 0), (5, 100), (30, 60)]


def _slot_cluster(r, heterogeneous, fmt):
    pools, wn = [], 0
    for pi in range(r.choice([1, 1, 2])):
        workers = []
        for _ in range(r.choice([1, 1, 2])):
            wn += 1
            res = [{"name": "Slot_1", "quantity": r.randint(4, 7)}]
            if heterogeneous:
                res.append({"name": "Slot_2", "quantity": r.randint(4, 6)})
                r.shuffle(res)
            workers.append({"name": f"Worker_{pi+1}_{wn}", "resources": res})
        pools.append({"name": f"WorkerPool_{pi+1}", "workers": workers})
    return {"name": f"cluster.{fmt}", "fmt": fmt, "content": pools}


def gen_alibaba_world(k):
    r = rng(f"c09-alibaba-{k}")
    policy = ALI_POLICIES[k % len(ALI_POLICIES)]
    multi = k % 6 == 4  # several labelled trace files (--workload_profile_paths): Poisson arrivals only
    release = "poisson" if multi else ALI_RELEASE[(k // 2) % len(ALI_RELEASE)]
    heterogeneous = k % 5 == 3
    files, infos = [], []
    flags = {"execution_mode": "replay", "replay_trace": "alibaba", "scheduler": policy, "scheduler_runtime": 0}
    nfiles = 2 if multi else 1
    for fi in range(nfiles):
        jobs, inf = gen_alibaba_file(r, k, fi, r.choice([1, 2, 3, 3, 4]), allow_short=(k % 4 == 1))
        files.append({"name": f"trace{fi+1}.pkl", "fmt": "alibaba_pkl", "content": jobs})
        infos += inf
    files.append(_slot_cluster(r, heterogeneous, ["yaml", "json"][k % 2]))
    flags["worker_profile_path"] = "{DIR}/" + files[-1]["name"]
    var = ALI_VARIANCES[k % len(ALI_VARIANCES)]
    if multi:
        flags["workload_profile_paths"] = ",".join("{DIR}/" + f["name"] for f in files[:nfiles])
        flags["workload_profile_path_labels"] = ",".join(f"L{fi+1}" for fi in range(nfiles))
        flags["override_release_policies"] = ",".join(["poisson"] * nfiles)
        flags["override_poisson_arrival_rates"] = ",".join(str(r.choice([0.002, 0.005, 0.01])) for _ in range(nfiles))
        flags["override_num_invocations"] = ",".join(str(r.randint(2, 4)) for _ in range(nfiles))
        flags["min_deadline_variances"] = ",".join(str(v) for v in (var[0], 0))
        flags["max_deadline_variances"] = ",".join(str(v) for v in (var[1], 40))
    else:
        flags["workload_profile_path"] = "{DIR}/trace1.pkl"
        flags["override_release_policy"] = release
        flags["min_deadline_variance"], flags["max_deadline_variance"] = var
        if release in ("fixed", "periodic"):
            flags["override_arrival_period"] = r.choice([60, 150, 400, 900])
        if release == "periodic":
            flags["loop_timeout"] = r.randint(1500, 3000)
        else:
            flags["override_num_invocation"] = r.randint(3, 6)
        if release in ("poisson", "gamma", "fixed_gamma"):
            flags["override_poisson_arrival_rate"] = r.choice([0.002, 0.005, 0.01, 0.02])
        if release in ("gamma", "fixed_gamma"):
            flags["override_gamma_coefficient"] = r.choice([0.5, 1.0, 2.0])
        if release == "fixed_gamma":
            flags["override_base_arrival_rate"] = r.choice([0.002, 0.005])
            flags["override_num_invocation"] = r.randint(5, 8)
    if k % 3 == 1:
        flags["randomize_start_time_max"] = r.choice([50, 200])
    if k % 4 == 2:
        flags["workload_update_interval"] = r.choice([100, 300, 700])
    if k % 7 == 3:
        flags["alibaba_loader_task_cpu_usage_random"] = True
        flags["alibaba_loader_task_cpu_usage_min"] = 1
        flags["alibaba_loader_task_cpu_usage_max"] = r.choice([3, 4])
    if k % 7 == 5:
        flags["alibaba_loader_task_cpu_divisor"] = 50
        flags["alibaba_loader_task_cpu_multiplier"] = 2
    if heterogeneous:
        flags["alibaba_enable_heterogeneous_resource_type"] = True
    if k % 5 == 2:
        flags["runtime_variance"] = r.choice([10, 20])
    if k % 9 == 7:
        flags["scheduler_frequency"] = r.choice([5, 20])
    if policy == "EDF" and k % 8 == 3:
        flags["enforce_deadlines"] = True
    if policy == "BranchPrediction":
        flags["scheduler_policy"] = BP_POLICIES[(k // 4) % 4]
        flags["branch_prediction_accuracy"] = [0.5, 0.8][(k // 16) % 2]
    feats = {"release": release, "files": nfiles, "jobs": len(infos),
             "joins": sum(i["joins"] for i in infos),
             "joins_listed_before_two_parents": sum(i["joins_listed_before_two_parents"] for i in infos),
             "listings": sorted({i["listing"] for i in infos}), "shapes": sorted({i["shape"] for i in infos}),
             "never_released_jobs": sum(1 for i in infos if i["never_released"]),
             "heterogeneous": heterogeneous, "cpu_usage_random": bool(flags.get("alibaba_loader_task_cpu_usage_random"))}
    return {"k": k, "id": f"ali{k:04d}", "mode": "alibaba_replay", "entry": "main.py", "policy": policy, "files": files,
            "flags": flags, "features": feats, "jobs": infos, "expect_exit": "ok"}


# ---------------------------------------------------------------------------
# TaskLoaderPylot

PYLOT_POLICIES = ["EDF", "FIFO", "LSF"]


def gen_pylot_world(k):
    r = rng(f"c09-pylot-{k}")
    policy = PYLOT_POLICIES[k % len(PYLOT_POLICIES)]
    shape = ["diamond", "layered", "two_joins", "chain_fanin", "fanin"][k % 5]
    n, edges = gen_dag(r, shape)
    base = ["camera", "lidar", "detection", "tracking", "prediction", "planning", "control", "imu", "gnss", "fusion"]
    names = r.sample(base, n)
    order = listing_order(r, n, edges, LISTINGS[k % len(LISTINGS)])
    res = ["CPU:any", "GPU:any"]
    profiles = [{"name": f"P_{names[c]}", "execution_strategies": [
        {"batch_size": 1, "runtime": r.randint(5, 30), "resource_requirements": {r.choice(res): 1}}]} for c in range(n)]
    graph = []
    for c in order:
        node = {"name": names[c], "work_profile": f"P_{names[c]}"}
        ch = [names[c2] for p, c2 in edges if p == c]
        r.shuffle(ch)
        if ch:
            node["children"] = ch
        graph.append(node)
    workload = {"profiles": profiles,
                "graphs": [{"name": "pylot_dataflow", "graph": graph, "release_policy": "fixed", "period": 100,
                            "invocations": 1}]}
    # profile: per timestamp and job one or two callbacks, listed in time order
    nts = r.randint(2, 4)
    step = r.choice([1, 10, 100])
    entries = []
    depth = [0] * n
    for c in range(n):
        depth[c] = 1 + max([depth[p] for p, c2 in edges if c2 == c], default=-1)
    for ts in range(nts):
        for c in range(n):
            for cb in range(r.choice([1, 1, 2])):
                entries.append({"name": f"{names[c]}.on_{['msg', 'watermark'][cb]}", "pid": names[c],
                                "ts": 5000 + ts * r.randint(90, 110) + depth[c] * r.randint(8, 14) + cb,
                                "dur": r.randint(4, 40), "args": {"timestamp": f"[{ts * step}]"}})
    entries.sort(key=lambda e: e["ts"])  # the loader takes the first entry (timestamp 0) as the origin of time
    ncpu, ngpu = r.randint(1, 3), r.randint(1, 2)
    cluster = [{"name": "Pool1", "workers": [{"name": "W1", "resources": [{"name": "CPU", "quantity": ncpu},
                                                                          {"name": "GPU", "quantity": ngpu}]}]}]
    flags = {"c09_loader": "pylot", "workload_profile_path": "{DIR}/pylot_graph.json",
             "c09_pylot_profile": "{DIR}/pylot_profile.json", "worker_profile_path": "{DIR}/cluster.json",
             "scheduler": policy, "scheduler_runtime": 0, "max_timestamp": r.choice([nts, nts - 1, 100]),
             "min_deadline_variance": [0, 10, 0][k % 3], "max_deadline_variance": [20, 50, 200][k % 3]}
    if k % 2:
        flags["synchronize_sensors"] = True
    # --timestamp_difference (TaskGraph.dilate) asserts a single parent per task: not applicable to these graphs
    files = [{"name": "pylot_graph.json", "fmt": "json", "content": workload},
             {"name": "pylot_profile.json", "fmt": "json", "content": entries},
             {"name": "cluster.json", "fmt": "json", "content": cluster}]
    feats = {"shape": shape, "jobs": n, "timestamps": nts, "callbacks": len(entries),
             "joins": sum(1 for c in range(n) if sum(1 for _, c2 in edges if c2 == c) >= 2)}
    return {"k": k, "id": f"pyl{k:04d}", "mode": "lib_pylot", "entry": DRIVER, "policy": policy, "files": files,
            "flags": flags, "features": feats, "expect_exit": "any"}


# ---------------------------------------------------------------------------
# WorkloadLoaderClockworkBursty

CB_POLICIES = ["Clockwork", "EDF", "Clockwork", "FIFO"]


def gen_bursty_world(k):
    r = rng(f"c09-bursty-{k}")
    policy = CB_POLICIES[k % len(CB_POLICIES)]
    models = r.randint(2, 4)
    cluster = [{"name": "Pool1", "workers": [
        {"name": f"W{w+1}", "resources": [{"name": "GPU", "quantity": 1}, {"name": "RAM", "quantity": r.choice([204, 320, 410])}]}
        for w in range(r.choice([1, 2]))]}]
    flags = {"c09_loader": "clockwork_bursty", "worker_profile_path": "{DIR}/cluster.json", "scheduler": policy,
             "scheduler_runtime": 0, "c09_cb_warmup_us": r.choice([4000, 12000, 25000]),
             "c09_cb_activation_us": r.choice([3000, 8000]), "c09_cb_models": models,
             "c09_cb_minor_rate": r.choice([200.0, 500.0, 1500.0]), "c09_cb_major_rate": r.choice([1000.0, 3000.0])}
    if policy == "Clockwork":
        flags["scheduler_run_load"] = True
    files = [{"name": "cluster.json", "fmt": "json", "content": cluster}]
    return {"k": k, "id": f"cwb{k:04d}", "mode": "lib_clockwork_bursty", "entry": DRIVER, "policy": policy,
            "files": files, "flags": flags, "features": {"models": models}, "expect_exit": "any"}


# ---------------------------------------------------------------------------
# execution modes of main.py that end before the simulation starts


def gen_stub_worlds():
    cluster = [{"name": "Pool1", "workers": [{"name": "W1", "resources": [{"name": "CPU", "quantity": 2},
                                                                          {"name": "GPU", "quantity": 2}]}]}]
    cfile = {"name": "cluster.json", "fmt": "json", "content": cluster}
    common = {"worker_profile_path": "{DIR}/cluster.json", "scheduler": "EDF", "scheduler_runtime": 0, "max_timestamp": 3}
    pyl = gen_pylot_world(0)
    ali = gen_alibaba_world(0)
    out = [dict(ali, id="stub_alibaba_clockwork", mode="stub_alibaba_clockwork", policy="Clockwork", expect_exit="any",
                features={}, flags=dict(ali["flags"], scheduler="Clockwork"))]
    # --workload_profile_path=<directory of .pkl files>: the loader pairs the files with no release policy and the policy
    # with no file, and get_next_workload raises KeyError(None)
    out.append(dict(ali, id="stub_alibaba_directory", mode="stub_alibaba_directory", expect_exit="any", features={},
                    files=[dict(f, name="traces/" + f["name"]) if f["fmt"] == "alibaba_pkl" else f for f in ali["files"]],
                    flags=dict(ali["flags"], workload_profile_path="{DIR}/traces")))
    for i, (name, fl, files) in enumerate([
        ("stub_synthetic", {"execution_mode": "synthetic"}, [cfile]),
        ("stub_benchmark", {"execution_mode": "benchmark"}, [cfile]),
        ("stub_replay_pylot", {"execution_mode": "replay", "replay_trace": "pylot",
                               "workload_profile_path": "{DIR}/pylot_graph.json"}, [cfile, pyl["files"][0]]),
    ]):
        out.append({"k": i, "id": name, "mode": name, "entry": "main.py", "policy": "EDF", "files": files,
                    "flags": dict(common, **fl), "features": {}, "expect_exit": "any"})
    return out
