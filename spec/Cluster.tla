------------------------------ MODULE Cluster ------------------------------
(* workers/workers.py: Worker / WorkerPool as a state machine.  One action   *)
(* per public mutator with a refused twin; `obj.cp` is the pool returned by   *)
(* copy()/deepcopy().  Occupants are the ground truth: a task (holding its    *)
(* own allocation), a batch (one allocation shared by its members) or a       *)
(* loaded / pending profile.                                                  *)
EXTENDS LedgerOps, TLC

CONSTANTS WInsts,     \* sequence (one per worker) of instance sequences
          Tasks,      \* set of task names
          Strat,      \* strategy name -> [dem |-> request vector, batch |-> BOOLEAN, size |-> Nat]
          SOrder,     \* sequence of the strategy names (order of the observation vector)
          Profiles,   \* set of profile names
          LoadDem     \* profile -> request vector of its loading strategy

VARIABLES obj,        \* [main |-> pool, cp |-> pool or NoObj]
          obs         \* what the public getters must return (function of obj)
vars == <<obj, obs>>

NW == Len(WInsts)
Workers == 1..NW
SNames == DOMAIN Strat
BatchS == {s \in SNames : Strat[s].batch}
Comps == Tasks \cup BatchS \cup Profiles      \* names are chosen disjoint
NoObj == [none |-> TRUE]
Objs == {"main", "cp"}
Live(o) == obj[o] # NoObj
NotPlaced == [w |-> 0, s |-> ""]

EmptyPool ==
    [ led  |-> [w \in Workers |-> EmptyLedger(WInsts[w], Comps)],
      on   |-> [t \in Tasks |-> NotPlaced],
      pend |-> [w \in Workers |-> {}],
      avl  |-> [w \in Workers |-> {}] ]


Members(P, w, s) == {t \in Tasks : P.on[t].w = w /\ P.on[t].s = s}

\* can_accomodate_strategy as documented: the strategy fits, or (batch) a member is already there
CanAccObs(P, w, s) ==
    \/ FitsEach(WInsts[w], P.led[w], Strat[s].dem)
    \/ (Strat[s].batch /\ Members(P, w, s) # {})

InstReq(w, i) == [name |-> WInsts[w][i].name, id |-> WInsts[w][i].id]
\* allocation (instance index, quantity) list reported for a placed task
AllocOf(P, t) == LET w == P.on[t].w  s == P.on[t].s
                 IN  IF Strat[s].batch THEN P.led[w].al[s] ELSE P.led[w].al[t]
\* get_available_quantity per instance, get_placed_tasks, get_allocated_resources,
\* can_accomodate_strategy per strategy, pending / available profiles
Observe(ob) ==
    [o \in Objs |->
        IF ob[o] = NoObj THEN NoObj
        ELSE [ iavail |-> [w \in Workers |-> [i \in 1..Len(WInsts[w]) |->
                              AvailQ(WInsts[w], ob[o].led[w].av, InstReq(w, i))]],
               placed |-> [w \in Workers |-> {t \in Tasks : ob[o].on[t].w = w}],
               alloc  |-> [t \in Tasks |-> IF ob[o].on[t].w = 0 THEN <<>> ELSE AllocOf(ob[o], t)],
               canacc |-> [w \in Workers |-> [k \in 1..Len(SOrder) |-> CanAccObs(ob[o], w, SOrder[k])]],
               pend   |-> ob[o].pend,
               avl    |-> ob[o].avl ]]

Init == /\ obj = [main |-> EmptyPool, cp |-> NoObj]
        /\ obs = Observe(obj)

\* whether placing really succeeds on w
TrueFit(P, w, s) ==
    IF Strat[s].batch /\ Members(P, w, s) # {}
    THEN Cardinality(Members(P, w, s)) < Strat[s].size
    ELSE CanAllocMulti(WInsts[w], P.led[w], Strat[s].dem)

DoPlace(P, t, s, w) ==
    LET holder == IF Strat[s].batch THEN s ELSE t
        newLed == IF Strat[s].batch /\ Members(P, w, s) # {}
                  THEN P.led[w]
                  ELSE MultiAlloc(WInsts[w], P.led[w], Strat[s].dem, holder, 1)
    IN  [P EXCEPT !.led[w] = newLed, !.on[t] = [w |-> w, s |-> s]]

\* WorkerPool.place_task(task, strategy, worker_id)
PlaceOn(o, t, s, w) ==
    /\ Live(o) /\ obj[o].on[t] = NotPlaced
    /\ TrueFit(obj[o], w, s)
    /\ obj' = [obj EXCEPT ![o] = DoPlace(@, t, s, w)]
    /\ obs' = Observe(obj')

PlaceOnRefused(o, t, s, w) ==
    /\ Live(o) /\ obj[o].on[t] = NotPlaced
    /\ ~TrueFit(obj[o], w, s)
    /\ UNCHANGED <<obj, obs>>

\* WorkerPool.place_task(task, strategy): first worker whose admission test passes
FirstAcc(P, s) ==
    IF \E w \in Workers : CanAccObs(P, w, s)
    THEN CHOOSE w \in Workers : CanAccObs(P, w, s) /\ \A v \in 1..(w - 1) : ~CanAccObs(P, v, s)
    ELSE 0

PlaceAny(o, t, s) ==
    /\ Live(o) /\ obj[o].on[t] = NotPlaced
    /\ LET w == FirstAcc(obj[o], s)
       IN /\ IF w = 0 THEN FALSE ELSE TrueFit(obj[o], w, s)
          /\ obj' = [obj EXCEPT ![o] = DoPlace(@, t, s, w)]
    /\ obs' = Observe(obj')

PlaceAnyRefused(o, t, s) ==
    /\ Live(o) /\ obj[o].on[t] = NotPlaced
    /\ LET w == FirstAcc(obj[o], s) IN IF w = 0 THEN TRUE ELSE ~TrueFit(obj[o], w, s)
    /\ UNCHANGED <<obj, obs>>

\* WorkerPool.remove_task
Remove(o, t) ==
    /\ Live(o) /\ obj[o].on[t] # NotPlaced
    /\ LET P == obj[o]
           w == P.on[t].w
           s == P.on[t].s
           last == Strat[s].batch /\ Members(P, w, s) = {t}
           newLed == IF ~Strat[s].batch THEN Dealloc(P.led[w], t)
                     ELSE IF last THEN Dealloc(P.led[w], s) ELSE P.led[w]
       IN obj' = [obj EXCEPT ![o] = [P EXCEPT !.led[w] = newLed, !.on[t] = NotPlaced]]
    /\ obs' = Observe(obj')

RemoveRefused(o, t) ==
    /\ Live(o) /\ obj[o].on[t] = NotPlaced
    /\ UNCHANGED <<obj, obs>>

\* WorkerPool.load_profile(profile, loading strategy, worker_id)
Load(o, w, p) ==
    /\ Live(o) /\ p \notin obj[o].pend[w] \cup obj[o].avl[w]
    /\ CanAllocMulti(WInsts[w], obj[o].led[w], LoadDem[p])
    /\ obj' = [obj EXCEPT ![o].led[w] = MultiAlloc(WInsts[w], @, LoadDem[p], p, 1),
                          ![o].pend[w] = @ \cup {p}]
    /\ obs' = Observe(obj')

LoadRefused(o, w, p) ==
    /\ Live(o) /\ p \notin obj[o].pend[w] \cup obj[o].avl[w]
    /\ ~CanAllocMulti(WInsts[w], obj[o].led[w], LoadDem[p])
    /\ UNCHANGED <<obj, obs>>

\* WorkerPool.evict_profile(profile, worker_id)
Evict(o, w, p) ==
    /\ Live(o) /\ p \in obj[o].pend[w] \cup obj[o].avl[w]
    /\ obj' = [obj EXCEPT ![o].led[w] = Dealloc(@, p),
                          ![o].pend[w] = @ \ {p}, ![o].avl[w] = @ \ {p}]
    /\ obs' = Observe(obj')

EvictRefused(o, w, p) ==
    /\ Live(o) /\ p \notin obj[o].pend[w] \cup obj[o].avl[w]
    /\ UNCHANGED <<obj, obs>>

\* WorkerPool.step with a step at least as long as every loading time: pending -> available
StepProfiles(o) ==
    /\ Live(o) /\ \E w \in Workers : obj[o].pend[w] # {}
    /\ obj' = [obj EXCEPT ![o].avl = [w \in Workers |-> obj[o].avl[w] \cup obj[o].pend[w]],
                          ![o].pend = [w \in Workers |-> {}]]
    /\ obs' = Observe(obj')

Copy == /\ obj' = [obj EXCEPT !.cp = obj.main]
        /\ obs' = Observe(obj')
DeepCopy == /\ obj' = [obj EXCEPT !.cp = EmptyPool]
            /\ obs' = Observe(obj')

NextCore ==
    \/ \E o \in Objs, t \in Tasks, s \in SNames, w \in Workers :
          PlaceOn(o, t, s, w) \/ PlaceOnRefused(o, t, s, w)
    \/ \E o \in Objs, t \in Tasks, s \in SNames : PlaceAny(o, t, s) \/ PlaceAnyRefused(o, t, s)
    \/ \E o \in Objs, t \in Tasks : Remove(o, t) \/ RemoveRefused(o, t)
    \/ \E o \in Objs, w \in Workers, p \in Profiles :
          Load(o, w, p) \/ LoadRefused(o, w, p) \/ Evict(o, w, p) \/ EvictRefused(o, w, p)
    \/ \E o \in Objs : StepProfiles(o)
    \/ Copy \/ DeepCopy

Next == NextCore

Spec == Init /\ [][Next]_vars

----------------------------------------------------------------------------
\* Occupants of worker w and what each demands
Holder(P, c, w) ==
    \/ (c \in Tasks /\ P.on[c].w = w /\ ~Strat[P.on[c].s].batch)
    \/ (c \in BatchS /\ Members(P, w, c) # {})
    \/ (c \in Profiles /\ c \in P.pend[w] \cup P.avl[w])

C04_Conserve == \A o \in Objs : Live(o) => \A w \in Workers : Conserved(WInsts[w], obj[o].led[w])
\* a resource is held exactly while its task / a member of its batch / its profile is resident
C04_HeldIffResident ==
    \A o \in Objs : Live(o) => \A w \in Workers, c \in Comps : Held(obj[o].led[w], c) <=> Holder(obj[o], c, w)
C04_IdleFull ==
    \A o \in Objs : Live(o) => \A w \in Workers :
        (\A c \in Comps : ~Holder(obj[o], c, w)) => Full(WInsts[w], obj[o].led[w])
C04_OneObject == [][obj'.main = obj.main \/ obj'.cp = obj.cp]_vars
\* C01 on this machine: the demand of the occupants never exceeds capacity (per request name)
Names(w) == {WInsts[w][i].name : i \in 1..Len(WInsts[w])}
DemOf(P, c) == IF c \in Tasks THEN Strat[P.on[c].s].dem ELSE IF c \in BatchS THEN Strat[c].dem ELSE LoadDem[c]
QtyOf(dem, n) == SumTo([k \in 1..Len(dem) |-> IF dem[k].name = n THEN dem[k].q ELSE 0], Len(dem))
C01_NoOversub ==
    \A o \in Objs : Live(o) => \A w \in Workers : \A n \in Names(w) :
        SumSet([c \in Comps |-> IF Holder(obj[o], c, w) THEN QtyOf(DemOf(obj[o], c), n) ELSE 0], Comps)
          <= TotalQ(WInsts[w], [name |-> n, id |-> "any"])
C01_SingleWorker ==
    \A o \in Objs : Live(o) => \A c \in Comps :
        Cardinality({w \in Workers : Held(obj[o].led[w], c)}) <= (IF c \in Tasks THEN 1 ELSE NW)
=============================================================================
