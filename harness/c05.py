"""C05 — every simulation terminates; feasible work is finished; no premature end."""
from . import simprops
from .common import CheckResult


def run(tier):
    res = CheckResult("C05", tier)
    simprops.check("C05", tier, res)
    return res
