"""Sim corpus: generate worlds, record traces of the real simulator, validate them with
TLC against SimTrace.tla.  Shared by C01-C08 (each filters the clauses it owns)."""
from __future__ import annotations

import json
import os
import random
import re
import time

from . import mcgen, simrun, tlaval, tlc, worlds
from .common import Scratch, parallel, seed


def clean_trace(tr):
    """JSON for TLC: drop python-only fields, no nulls."""
    end = tr.get("end", {})
    extra = {"reader": tr["reader"]} if "reader" in tr else {}
    return {
        **extra,
        "pools": tr["pools"],
        "flags": tr["flags"],
        "init": tr["init"],
        "recs": [{k: v for k, v in r.items() if k != "raw_rows"} for r in tr["recs"]],
        "endexc": end.get("exc") or "",
        "endhang": end.get("hang") or "",
    }


def _validate_batch(batch_id, traces, scratch):
    path = os.path.join(scratch, f"batch{batch_id}.json")
    with open(path, "w") as f:
        json.dump([clean_trace(t) for t in traces], f)
    mod, cfg = mcgen.write_mc(
        scratch, "SimTrace", {"TraceFile": path}, name=f"MC_SimTrace_{batch_id}", invariants=["Done"], spec="Spec"
    )
    r = tlc.run_tlc(mod, cfg, workers=1, coverage=False, java_opts=mcgen.LIB_OPT + ["-Xss128m"], timeout=1800)
    viols, done = [], {}
    for v in tlaval.extract_tagged(r.stdout, "@@V"):
        viols.append((v[1], v[2], sorted(v[3], key=repr)))
    for v in tlaval.extract_tagged(r.stdout, "@@D"):
        done[v[1]] = v[2]
    os.remove(path)
    return {"ok": r.ok, "viols": viols, "done": done, "states": r.distinct, "generated": r.generated,
            "kind": r.violation_kind, "name": r.violation_name, "tail": r.stdout[-3000:] if not r.ok else "",
            "wall": r.wall_s}


def validate(traces, nbatches=16):
    """Returns (per-trace list of violations [(rec index, [clauses])], stats)."""
    usable = [(i, t) for i, t in enumerate(traces) if "machinery_error" not in t and "init" in t]
    batches = [[] for _ in range(min(nbatches, max(1, len(usable))))]
    for k, (i, t) in enumerate(usable):
        batches[k % len(batches)].append((i, t))
    out = {i: [] for i, _ in usable}
    stats = {"states": 0, "generated": 0, "batches": len(batches), "records": 0, "incomplete": []}
    with Scratch() as scratch:
        res = parallel(_validate_batch, [(b, [t for _, t in batch], scratch) for b, batch in enumerate(batches)], procs=16)
    for batch, r in zip(batches, res):
        if not r["ok"]:
            raise tlc.TLCMachineryError(f"SimTrace batch failed: {r['kind']} {r['name']}\n{r['tail']}")
        stats["states"] += r["states"]
        stats["generated"] += r["generated"]
        for tid, l, clauses in r["viols"]:
            out[batch[tid - 1][0]].append((l, clauses))
        for k, (i, t) in enumerate(batch, start=1):
            n = len(t["recs"])
            stats["records"] += n
            if r["done"].get(k) != n:
                stats["incomplete"].append(i)
    return out, stats


if __name__ == "__main__":
    import sys

    n = int(sys.argv[1]) if len(sys.argv) > 1 else 8
    rnd = random.Random(seed())
    ws = [worlds.gen_world(rnd) for _ in range(n)]
    t0 = time.time()
    trs = simrun.run_worlds(ws)
    print("sim", round(time.time() - t0, 1), "s; recs", sum(len(t.get("recs", [])) for t in trs))
    for t in trs:
        if "machinery_error" in t:
            print("MACHINERY", t["machinery_error"], t["tb"])
    v, st = validate(trs)
    print(st)
    agg = {}
    for i, lst in v.items():
        e = trs[i]["end"]
        if e["exc"] or e["hang"]:
            print("world", i, "END", e["exc"], e["hang"])
        for l, cl in lst:
            for c in cl:
                agg.setdefault(repr(c), []).append((i, l))
    for c, where in sorted(agg.items(), key=lambda kv: -len(kv[1])):
        print(len(where), c, where[:4])
