------------------------------ MODULE Decision ------------------------------
(* C10 - what a scheduling policy may answer.                                *)
(*                                                                          *)
(* ValidDecision(call) judges one *scheduler call record*: the arguments of  *)
(* BaseScheduler.schedule(sim_time, workload, worker_pools) projected        *)
(* through the public getters just before the call, the returned Placements  *)
(* and the same projection just after the call.  It is a conjunction of       *)
(* named clauses; every clause is an operator from the record to the set of  *)
(* *offenders* (task numbers; 0 = the call as a whole; -(100*pool + worker)   *)
(* = a worker), the clause holds iff the set is empty.                        *)
(*                                                                          *)
(* call = [ id, policy, conv, now, raised, offered, tasks, cluster, decs,     *)
(*          pre, post ]                                                      *)
(*   policy   "edf" "fifo" "lsf" "ilp" "ts_gurobi" "ts_cplex" "z3" "clockwork"*)
(*   conv     the policy's planning convention (DESIGN 7), named constants:   *)
(*            gap      0: a task occupies start <= x < start + rt (a resource *)
(*                        freed at x is reusable at x - the simulator's own   *)
(*                        reading: TetriSched, greedy, Clockwork, Z3),        *)
(*                     1: start <= x <= start + rt (ILP: closed intervals,    *)
(*                        s1 >= s2 + rt2 + 1)                                 *)
(*            instants "now":    capacity is planned at the invocation time   *)
(*                               (and the starts of the new placements) only  *)
(*                     "starts": at every start point of a running /          *)
(*                               scheduled / newly placed interval            *)
(*            plans    "kept": the plan of a SCHEDULED task that the call     *)
(*                     does not re-decide keeps holding its worker;           *)
(*                     "ignored": only the live cluster counts (greedy)       *)
(*            startLB  new placements start at now + startLB or later (side)  *)
(*            grid     new placements start at now + k * grid (side clause)   *)
(*   now      invocation time                                                *)
(*   raised   "" or the exception schedule() raised                           *)
(*   offered  task numbers Workload.get_schedulable_tasks returned to it      *)
(*   tasks    per task [st, rel, dl, strats, plan, rem]                       *)
(*            st: TaskState value; rel: release time or -1; strats: sequence  *)
(*            of [dem, rt, bs]; plan = [pool, wk, sd, tm] (pool 0: none) is    *)
(*            the current Placement of a SCHEDULED task; rem: remaining time   *)
(*   cluster  per pool, per worker [insts, av, occ]; insts: sequence of       *)
(*            [name, id, cap]; av: available per instance; occ: the placed    *)
(*            tasks [t, dem, fin, bid] (fin = now + remaining time)           *)
(*   decs     sequence of [kind, t, placed, pool, wk, sd, tm]; kind 1 evict,  *)
(*            2 load, 3 cancel, 4 place; wk 0 = worker left to the pool,      *)
(*            -1 = not a worker of that pool; sd = [dem, rt, bs, bid] with    *)
(*            rt -1 = no strategy reported (then *some* strategy of the task   *)
(*            must make the plan fit); bid # 0: members of one batch (they     *)
(*            share one allocation)                                          *)
(*   pre/post [ts, cl] full projection of task states / plans and of the live *)
(*            cluster (per-instance availability, placed tasks, allocations)  *)
(*   optional fields (a record without them is read with the default):       *)
(*   conv.preemptive (FALSE)  the policy was built with preemptive=True: the   *)
(*            tasks placed on the workers are offered too, the policy plans    *)
(*            on emptied workers and answers for RUNNING tasks (placed in the  *)
(*            same pool at `now` = keeps running, not placed = preempted,      *)
(*            placed elsewhere / later = migrated); "have not started" of the  *)
(*            statement applies to non-preemptive use                          *)
(*   conv.enforce (FALSE)     enforce_deadlines option (vacuity counters only) *)
(*   cluster[p][w].prof (<<>>) the work profiles held by the worker, sequence  *)
(*            of [pr, dem, pend]: profile number, resources its loading        *)
(*            strategy holds, still loading?                                   *)
(*   decs[i].pr (0)           profile number of a LOAD / EVICT decision        *)
(*   tasks[t].prof (0)        profile number of the task                       *)
(*                                                                          *)
(* A demand / capacity is compared per resource *name* on a worker            *)
(* (LedgerOps!TotalQ with the wildcard id), which is what all bundled         *)
(* planners budget; the instance-level ledger is C01/C04's business.          *)
EXTENDS Integers, Sequences, FiniteSets, TLC, LedgerOps

VIRTUAL == 1  RELEASED == 2  SCHEDULED == 3  RUNNING == 4
PREEMPTED == 5  EVICTED == 6  COMPLETED == 7  CANCELLED == 8
EVICT == 1  LOAD == 2  CANCEL == 3  PLACE == 4

\* the greedy and optimisation planners: they answer every offered task
\* ("bp": BranchPredictionScheduler, "bp_logfix": the same with the attribute its log line reads supplied)
Planners == {"edf", "fifo", "lsf", "ilp", "ts_gurobi", "ts_cplex", "bp", "bp_logfix"}
\* "have started": no decision may name such a task
Started == {RUNNING, COMPLETED, CANCELLED}
Inf == 1000000000

\* optional fields and their defaults
Has(r, f) == f \in DOMAIN r
Preemptive(c) == Has(c.conv, "preemptive") /\ c.conv.preemptive
Enforcing(c)  == Has(c.conv, "enforce") /\ c.conv.enforce
ProfsOf(c, p, w) == IF Has(c.cluster[p][w], "prof") THEN c.cluster[p][w].prof ELSE <<>>
PrOf(d) == IF Has(d, "pr") THEN d.pr ELSE 0
TaskProf(c, t) == IF Has(c.tasks[t], "prof") THEN c.tasks[t].prof ELSE 0
\* under the preemptive convention a RUNNING task that was offered may be answered
StartedFor(c) == IF Preemptive(c) THEN {COMPLETED, CANCELLED} ELSE Started

ClauseNames == <<"C10.returns", "C10.one_per_task", "C10.only_offered", "C10.answers_all",
                 "C10.names_exist", "C10.strategy_of_task", "C10.time_not_past",
                 "C10.time_not_before_release", "C10.capacity", "C10.side_effect_free">>
\* beside the statement: the pinned conventions (reported as notes, never as violations)
SideNames == <<"conv.start_lb", "conv.grid", "conv.evict_held", "conv.batch_size">>

-----------------------------------------------------------------------------
(* vocabulary *)
TaskIds(c)   == 1..Len(c.tasks)
PoolIds(c)   == 1..Len(c.cluster)
WorkerIds(c, p) == 1..Len(c.cluster[p])
Offered(c)   == {c.offered[i] : i \in 1..Len(c.offered)}
DecIds(c)    == 1..Len(c.decs)
TaskDecs(c)  == {i \in DecIds(c) : c.decs[i].kind \in {CANCEL, PLACE}}
DecsOf(c, t) == {i \in TaskDecs(c) : c.decs[i].t = t}
PlacedDecs(c) == {i \in TaskDecs(c) : c.decs[i].kind = PLACE /\ c.decs[i].placed}
ProfileDecs(c) == {i \in DecIds(c) : c.decs[i].kind \in {EVICT, LOAD}}
Known(c, t)  == t \in TaskIds(c)
St(c, t)     == c.tasks[t].st

NamesOK(c, d) ==
    /\ d.pool \in PoolIds(c)
    /\ d.wk \in 0..Len(c.cluster[d.pool])

-----------------------------------------------------------------------------
(* clauses 0-4 *)
\* (0) schedule() returns normally
Returns(c) == IF c.raised = "" THEN {} ELSE {0}

\* (1) at most one decision (placed / not placed / cancel) per task
OnePerTask(c) == {c.decs[i].t : i \in {j \in TaskDecs(c) : Cardinality(DecsOf(c, c.decs[j].t)) > 1}}

\* (2) only tasks that were offered or that the policy had scheduled earlier, never a started one
OnlyOffered(c) ==
    {c.decs[i].t : i \in {j \in TaskDecs(c) :
        LET t == c.decs[j].t
        IN  \/ ~Known(c, t)
            \/ St(c, t) \in StartedFor(c)
            \/ (t \notin Offered(c) /\ St(c, t) # SCHEDULED)}}

\* (3) the planners answer every offered task that is not already SCHEDULED
AnswersAll(c) ==
    IF c.policy \in Planners
    THEN {t \in Offered(c) : Known(c, t) /\ St(c, t) # SCHEDULED /\ DecsOf(c, t) = {}}
    ELSE {}

\* (4a) a placement (and a profile load / eviction) names an existing pool, and a worker of it if any
NamesExist(c) ==
    {c.decs[i].t : i \in {j \in PlacedDecs(c) \cup ProfileDecs(c) : ~NamesOK(c, c.decs[j])}}

\* (4b) a reported strategy is one of the task's strategies
StrategyOfTask(c) ==
    {c.decs[i].t : i \in {j \in PlacedDecs(c) :
        LET d == c.decs[j]
        IN  /\ Known(c, d.t) /\ d.sd.rt # -1
            /\ ~\E k \in 1..Len(c.tasks[d.t].strats) :
                  LET s == c.tasks[d.t].strats[k]
                  IN  s.dem = d.sd.dem /\ s.rt = d.sd.rt /\ s.bs = d.sd.bs}}

\* (4c) not in the past, (4d) not before the task's known release
TimeNotPast(c) ==
    {c.decs[i].t : i \in {j \in PlacedDecs(c) \cup ProfileDecs(c) : c.decs[j].tm < c.now}}
TimeNotBeforeRelease(c) ==
    {c.decs[i].t : i \in {j \in PlacedDecs(c) :
        LET d == c.decs[j]
        IN  Known(c, d.t) /\ c.tasks[d.t].rel >= 0 /\ d.tm < c.tasks[d.t].rel}}

-----------------------------------------------------------------------------
(* clause 5: CapacityOK *)
\* An item is something that holds resources of a worker during [s, e):
\*   key <<1, p, w, j>>  the j-th occupant of worker w of pool p (until now + remaining)
\*   key <<2, t, 0, 0>>  a SCHEDULED task that this call does not re-decide (its plan)
\*   key <<3, i, 0, 0>>  the i-th decision, a new placement
\* wk = 0: the worker is chosen by the pool - some assignment must exist.
\* An abstract item carries the alternatives alts = <<[dem, rt], ...>> it may execute
\* with: exactly the reported strategy, or - when a placement reports no strategy (Z3;
\* the pool then takes the first strategy of the task that fits, WorkerPool.place_task)
\* - any strategy of the task: some choice must exist.
Item0(key, t, p, w, alts, s, isnew, bid) ==
    [key |-> key, t |-> t, pool |-> p, wk |-> w, alts |-> alts, s |-> s, new |-> isnew, bid |-> bid]
Alt(dem, rt) == [dem |-> dem, rt |-> rt]

\* preemptive convention: an occupant this call answers for is planned anew (its decision is
\* the item), the others keep their worker
KeptOcc(c, p, w) ==
    {j \in 1..Len(c.cluster[p][w].occ) : ~(Preemptive(c) /\ DecsOf(c, c.cluster[p][w].occ[j].t) # {})}
RunItems0(c) ==
    UNION {UNION {{Item0(<<1, p, w, j>>, c.cluster[p][w].occ[j].t, p, w,
                         <<Alt(c.cluster[p][w].occ[j].dem, c.cluster[p][w].occ[j].fin - c.now)>>, c.now,
                         FALSE, c.cluster[p][w].occ[j].bid)
                     : j \in KeptOcc(c, p, w)} : w \in WorkerIds(c, p)} : p \in PoolIds(c)}

\* key <<4, p, w, j>>: the j-th work profile held by worker w of pool p (available or still
\* loading): the resources of its loading strategy stay allocated until an EVICT decision of
\* this call names it (for ever otherwise); key <<3, i, 0, 0>> of a LOAD decision: held from
\* its time on.  The task number of such an item is -(10000 + profile number).
MinOf(S) == CHOOSE m \in S : \A x \in S : m <= x
EvictTimes(c, p, w, pr) ==
    {c.decs[i].tm : i \in {j \in ProfileDecs(c) :
        c.decs[j].kind = EVICT /\ c.decs[j].pool = p /\ c.decs[j].wk = w /\ PrOf(c.decs[j]) = pr /\ c.decs[j].tm >= c.now}}
HeldUntil(c, p, w, pr) == IF EvictTimes(c, p, w, pr) = {} THEN Inf ELSE MinOf(EvictTimes(c, p, w, pr))
HeldItems0(c) ==
    UNION {UNION {{Item0(<<4, p, w, j>>, -(10000 + ProfsOf(c, p, w)[j].pr), p, w,
                         <<Alt(ProfsOf(c, p, w)[j].dem, HeldUntil(c, p, w, ProfsOf(c, p, w)[j].pr) - c.now - c.conv.gap)>>,
                         c.now, FALSE, 0)
                     : j \in 1..Len(ProfsOf(c, p, w))} : w \in WorkerIds(c, p)} : p \in PoolIds(c)}
LoadDecs(c) == {i \in ProfileDecs(c) : c.decs[i].kind = LOAD /\ NamesOK(c, c.decs[i]) /\ c.decs[i].tm >= c.now}
LoadItems0(c) ==
    {Item0(<<3, i, 0, 0>>, -(10000 + PrOf(c.decs[i])), c.decs[i].pool, c.decs[i].wk,
           <<Alt(c.decs[i].sd.dem, Inf - c.decs[i].tm - c.conv.gap)>>, c.decs[i].tm, TRUE, 0) : i \in LoadDecs(c)}

\* conv.plans = "ignored": the policy plans the invocation instant on the live cluster
\* only (it never leaves a task SCHEDULED for later itself); plans that are still
\* pending then are the simulator's to retry (WORKER_NOT_READY), not its to respect
KeptPlans(c) ==
    IF c.conv.plans = "ignored" THEN {}
    ELSE {t \in TaskIds(c) : St(c, t) = SCHEDULED /\ c.tasks[t].plan.pool \in PoolIds(c) /\ DecsOf(c, t) = {}}
PlanItems0(c) ==
    {Item0(<<2, t, 0, 0>>, t, c.tasks[t].plan.pool, c.tasks[t].plan.wk,
           <<Alt(c.tasks[t].plan.sd.dem, c.tasks[t].plan.sd.rt)>>, c.tasks[t].plan.tm, FALSE, c.tasks[t].plan.sd.bid)
       : t \in KeptPlans(c)}

GoodPlaced(c) == {i \in PlacedDecs(c) : Known(c, c.decs[i].t) /\ NamesOK(c, c.decs[i])}
\* (a RUNNING task that is answered - preemptive convention - needs its remaining time only)
AltsOf(c, d) ==
    IF d.sd.rt # -1 THEN <<Alt(d.sd.dem, IF St(c, d.t) = RUNNING THEN c.tasks[d.t].rem ELSE d.sd.rt)>>
    ELSE [k \in 1..Len(c.tasks[d.t].strats) |-> Alt(c.tasks[d.t].strats[k].dem, c.tasks[d.t].strats[k].rt)]
DecItems0(c) ==
    {Item0(<<3, i, 0, 0>>, c.decs[i].t, c.decs[i].pool, c.decs[i].wk, AltsOf(c, c.decs[i]), c.decs[i].tm,
           TRUE, c.decs[i].sd.bid) : i \in GoodPlaced(c)}

Items0(c) == RunItems0(c) \cup PlanItems0(c) \cup DecItems0(c) \cup HeldItems0(c) \cup LoadItems0(c)

\* a choice of one alternative per item that has several; the concrete items under it
\* hold dem during [s, e), e = s + rt + conv.gap
MultiKeys(I0) == {it.key : it \in {x \in I0 : Len(x.alts) > 1}}
MaxAlts(I0)   == LET L == {Len(it.alts) : it \in I0} IN IF L = {} THEN 1 ELSE CHOOSE m \in L : \A x \in L : x <= m
Choices(I0) ==
    {ch \in [MultiKeys(I0) -> 1..MaxAlts(I0)] : \A it \in I0 : Len(it.alts) > 1 => ch[it.key] <= Len(it.alts)}
Conc(c, I0, ch) ==
    {LET a == it.alts[IF Len(it.alts) > 1 THEN ch[it.key] ELSE 1]
     IN  [key |-> it.key, t |-> it.t, pool |-> it.pool, wk |-> it.wk, dem |-> a.dem, s |-> it.s,
          e |-> it.s + a.rt + c.conv.gap, new |-> it.new, bid |-> it.bid] : it \in I0}
AnyChoice(I0) == CHOOSE ch \in Choices(I0) : TRUE
Items(c) == Conc(c, Items0(c), AnyChoice(Items0(c)))
RunItems(c)  == {it \in Items(c) : it.key[1] = 1}
PlanItems(c) == {it \in Items(c) : it.key[1] = 2}

DemQ(dem, n) == SumTo([k \in 1..Len(dem) |-> IF dem[k].name = n THEN dem[k].q ELSE 0], Len(dem))
CapQ(c, p, w, n) == TotalQ(c.cluster[p][w].insts, [name |-> n, id |-> "any"])
ResNames(c, I, p) ==
    UNION {{c.cluster[p][w].insts[k].name : k \in 1..Len(c.cluster[p][w].insts)} : w \in WorkerIds(c, p)}
    \cup UNION {{it.dem[k].name : k \in 1..Len(it.dem)} : it \in I}

Instants(c, I) ==
    IF c.conv.instants = "now" THEN {c.now} \cup {it.s : it \in {x \in I : x.new}}
    ELSE {c.now} \cup {it.s : it \in I}

Active(it, x) == it.s <= x /\ x < it.e
\* worker of an item under the assignment asg of the pool-chosen ones
On(asg, it) == IF it.wk = 0 THEN asg[it.key] ELSE it.wk
ActiveOn(I, asg, w, x) == {it \in I : On(asg, it) = w /\ Active(it, x)}

\* demand for resource name n of a set of items on one worker: the members of one
\* batch (same bid) hold one allocation together
Usage(A, n) ==
    LET single == {it \in A : it.bid = 0}
        bids   == {it.bid : it \in A \ single}
    IN  SumSet([it \in single |-> DemQ(it.dem, n)], single)
        + SumSet([b \in bids |-> DemQ((CHOOSE it \in A : it.bid = b).dem, n)], bids)

\* worker w of pool p is over-subscribed at x for n *by this call*: a new placement
\* that needs n is among the tasks there (what was over-committed before the call
\* without any new placement taking part is not this call's doing)
OverA(c, A, p, w, n) ==
    /\ \E it \in A : it.new /\ DemQ(it.dem, n) > 0
    /\ Usage(A, n) > CapQ(c, p, w, n)
Over(c, I, asg, p, w, x, n) == OverA(c, ActiveOn(I, asg, w, x), p, w, n)

PoolFits(c, I, asg, p) ==
    LET X  == Instants(c, I)
        NS == ResNames(c, I, p)
    IN  \A w \in WorkerIds(c, p), x \in X :
            LET A == ActiveOn(I, asg, w, x)
            IN  (\E it \in A : it.new) => \A n \in NS : ~OverA(c, A, p, w, n)

PoolItems0(c, p) == {it \in Items0(c) : it.pool = p}
FreeKeys(I) == {it.key : it \in {x \in I : x.wk = 0}}
Assignments(c, I, p) == [FreeKeys(I) -> WorkerIds(c, p)]

\* some choice of strategies (where none is reported) and some assignment of the
\* pool-chosen items to workers of the pool fits
PoolFeasible(c, I0, p) ==
    \E ch \in Choices(I0) : LET I == Conc(c, I0, ch) IN \E asg \in Assignments(c, I, p) : PoolFits(c, I, asg, p)
\* everything is named: one choice, one assignment
Determined(c, I0) == MultiKeys(I0) = {} /\ \A it \in I0 : it.wk # 0

\* offenders of pool p: nobody if the pool is feasible; the new placements standing on an
\* over-subscribed (worker, instant) if every worker and strategy is named; all new
\* placements of the pool otherwise
PoolOffenders(c, p) ==
    LET I0 == PoolItems0(c, p)
    IN  IF ~\E it \in I0 : it.new THEN {}
        ELSE IF PoolFeasible(c, I0, p) THEN {}
        ELSE IF Determined(c, I0)
             THEN LET I   == Conc(c, I0, AnyChoice(I0))
                      asg == CHOOSE a \in Assignments(c, I, p) : TRUE
                  IN  {it.t : it \in {y \in I : y.new /\
                          \E w \in WorkerIds(c, p), x \in Instants(c, I), n \in ResNames(c, I, p) :
                              /\ Over(c, I, asg, p, w, x, n)
                              /\ On(asg, y) = w /\ Active(y, x) /\ DemQ(y.dem, n) > 0}}
             ELSE {it.t : it \in {y \in I0 : y.new}}

Capacity(c) == UNION {PoolOffenders(c, p) : p \in PoolIds(c)}

-----------------------------------------------------------------------------
(* clause 6: deciding changes neither the live cluster nor any task *)
SideEffectFree(c) ==
    LET nt == IF Len(c.pre.ts) < Len(c.post.ts) THEN Len(c.pre.ts) ELSE Len(c.post.ts)
    IN  {t \in 1..nt : c.pre.ts[t] # c.post.ts[t]}
        \cup (IF Len(c.pre.ts) # Len(c.post.ts) \/ Len(c.pre.cl) # Len(c.post.cl) THEN {0} ELSE {})
        \cup (IF Len(c.pre.cl) # Len(c.post.cl) THEN {}
              ELSE UNION {IF Len(c.pre.cl[p]) # Len(c.post.cl[p]) THEN {-(100 * p)}
                          ELSE {-(100 * p + w) : w \in {v \in 1..Len(c.pre.cl[p]) : c.pre.cl[p][v] # c.post.cl[p][v]}}
                          : p \in 1..Len(c.pre.cl)})

-----------------------------------------------------------------------------
Offenders(cl, c) ==
    CASE cl = "C10.returns"                 -> Returns(c)
      [] cl = "C10.one_per_task"            -> OnePerTask(c)
      [] cl = "C10.only_offered"            -> OnlyOffered(c)
      [] cl = "C10.answers_all"             -> IF c.raised = "" THEN AnswersAll(c) ELSE {}
      [] cl = "C10.names_exist"             -> NamesExist(c)
      [] cl = "C10.strategy_of_task"        -> StrategyOfTask(c)
      [] cl = "C10.time_not_past"           -> TimeNotPast(c)
      [] cl = "C10.time_not_before_release" -> TimeNotBeforeRelease(c)
      [] cl = "C10.capacity"                -> Capacity(c)
      [] cl = "C10.side_effect_free"        -> SideEffectFree(c)
      [] cl = "conv.start_lb" -> {c.decs[i].t : i \in {j \in PlacedDecs(c) : c.decs[j].tm < c.now + c.conv.startLB}}
      [] cl = "conv.grid"     -> {c.decs[i].t : i \in {j \in PlacedDecs(c) : (c.decs[j].tm - c.now) % c.conv.grid # 0}}
      \* an EVICT names a profile the worker holds
      [] cl = "conv.evict_held" ->
            {-(10000 + PrOf(c.decs[i])) : i \in {j \in ProfileDecs(c) :
                LET d == c.decs[j]
                IN  d.kind = EVICT /\ NamesOK(c, d) /\ d.wk > 0
                    /\ ~\E k \in 1..Len(ProfsOf(c, d.pool, d.wk)) : ProfsOf(c, d.pool, d.wk)[k].pr = PrOf(d)}}
      \* the members this call gives one batch, with the occupants already in it, are at most its batch size
      [] cl = "conv.batch_size" ->
            {c.decs[i].t : i \in {j \in PlacedDecs(c) :
                LET d == c.decs[j]
                IN  d.sd.bid # 0 /\ NamesOK(c, d)
                    /\ Cardinality({k \in PlacedDecs(c) : c.decs[k].sd.bid = d.sd.bid})
                        + Cardinality(UNION {{<<w, o>> : o \in {v \in KeptOcc(c, d.pool, w) : c.cluster[d.pool][w].occ[v].bid = d.sd.bid}}
                                               : w \in WorkerIds(c, d.pool)})
                       > d.sd.bs}}

\* the circumstance of a failure (part of the finding key): what the new placements
\* collide with / why a decision was not allowed / what changed
CapacityCirc(c) ==
    UNION {LET I0 == PoolItems0(c, p)
           IN  IF PoolOffenders(c, p) = {} THEN {}
               ELSE IF \E it \in I0 : it.wk = 0 THEN {"pool_chosen_workers"}
               ELSE LET I   == Conc(c, I0, AnyChoice(I0))
                        asg == CHOOSE a \in Assignments(c, I, p) : TRUE
                        K   == UNION {UNION {UNION {
                                 IF Over(c, I, asg, p, w, x, n)
                                 THEN {CASE it.key[1] = 1 -> "running" [] it.key[1] = 2 -> "kept_plan"
                                         [] it.key[1] = 4 -> "held_profile" [] it.t < 0 -> "load" [] OTHER -> "new"
                                         : it \in {y \in ActiveOn(I, asg, w, x) : DemQ(y.dem, n) > 0}}
                                 ELSE {} : n \in ResNames(c, I, p)} : x \in Instants(c, I)} : w \in WorkerIds(c, p)}
                    IN  IF K = {} THEN {"no_strategy_reported"} ELSE K
           : p \in PoolIds(c)}

Circ(cl, c) ==
    CASE cl = "C10.capacity" -> CapacityCirc(c)
      [] cl = "C10.only_offered" ->
            {CASE ~Known(c, t) -> "unknown_task" [] St(c, t) \in StartedFor(c) -> "started" [] OTHER -> "not_offered"
               : t \in OnlyOffered(c)}
      \* why a task got several answers: it was offered several times / the answers differ / the same answer twice
      [] cl = "C10.one_per_task" ->
            {IF Cardinality({k \in 1..Len(c.offered) : c.offered[k] = t}) > 1 THEN "offered_twice"
             ELSE IF Cardinality({c.decs[i] : i \in DecsOf(c, t)}) > 1 THEN "distinct_answers" ELSE "same_answer"
               : t \in OnePerTask(c)}
      [] cl = "C10.side_effect_free" ->
            {IF o > 0 THEN "task" ELSE IF o < 0 THEN "cluster" ELSE "shape" : o \in SideEffectFree(c)}
      [] OTHER -> {}

Range(s) == {s[i] : i \in 1..Len(s)}
Failing(c) == {cl \in Range(ClauseNames) : Offenders(cl, c) # {}}
ValidDecision(c) == Failing(c) = {}

\* vocabulary of the state classes
Occupants(c) == {t \in TaskIds(c) : St(c, t) = RUNNING}
\* offered tasks that wait for their first decision
Fresh(c) == {t \in Offered(c) : Known(c, t) /\ St(c, t) \in {VIRTUAL, RELEASED} /\ c.tasks[t].rel >= 0
                                /\ Len(c.tasks[t].strats) > 0}
FitsEmpty(c, p, w, dem) == \A k \in 1..Len(dem) : DemQ(dem, dem[k].name) <= CapQ(c, p, w, dem[k].name)
FitWorkers(c, t) ==
    {pw \in UNION {{<<p, w>> : w \in WorkerIds(c, p)} : p \in PoolIds(c)} :
        \E k \in 1..Len(c.tasks[t].strats) : FitsEmpty(c, pw[1], pw[2], c.tasks[t].strats[k].dem)}
Earliest(c, t) == IF c.tasks[t].rel > c.now THEN c.tasks[t].rel ELSE c.now
MinRt(c, t) == MinOf({c.tasks[t].strats[k].rt : k \in 1..Len(c.tasks[t].strats)})

\* --- histories: the record of a call on a policy object that has been invoked before (optional field
\* hist = [call |-> number of this invocation on the object, seen |-> per task: in how many earlier invocations of
\* the object the task was offered]).  A stateful policy (Clockwork keeps request queues) is judged by the same
\* clauses on every invocation; the classes below tell which invocations met a request that has been WAITING since
\* an earlier invocation at one of the instants the policy compares against (deadline - runtime of a strategy,
\* release, deadline).
CallNo(c) == IF Has(c, "hist") THEN c.hist.call ELSE 1
Seen(c, t) == IF Has(c, "hist") /\ t \in 1..Len(c.hist.seen) THEN c.hist.seen[t] ELSE 0
Timed(c) == {t \in Offered(c) : Known(c, t) /\ St(c, t) = RELEASED /\ Len(c.tasks[t].strats) > 0}
WaitingReqs(c) == {t \in Timed(c) : Seen(c, t) > 0}
FirstSeen(c) == {t \in Timed(c) : Seen(c, t) = 0}
\* slack of task t at this invocation under its k-th strategy: 0 = it can just be finished in time
SlackOn(c, t, k) == c.tasks[t].dl - c.now - c.tasks[t].strats[k].rt
SlackIs(c, S, d) == \E t \in S : \E k \in 1..Len(c.tasks[t].strats) : SlackOn(c, t, k) = d
FastestSlack(c, t) == c.tasks[t].dl - c.now - MinRt(c, t)
PlacedNow(c, t) == \E i \in DecsOf(c, t) : c.decs[i].kind = PLACE /\ c.decs[i].placed
CancelledNow(c, t) == \E i \in DecsOf(c, t) : c.decs[i].kind = CANCEL
HistoryClasses == {"later_invocation", "waiting_request", "waiting_placed", "waiting_cancelled", "waiting_unanswered",
                   "first_seen_zero_slack", "first_seen_slack_minus1", "first_seen_slack_plus1",
                   "waiting_zero_slack", "waiting_slack_minus1", "waiting_slack_plus1",
                   "waiting_zero_slack_fastest", "waiting_zero_slack_slower_strategy",
                   "waiting_zero_slack_fastest_placed", "waiting_zero_slack_fastest_cancelled",
                   "waiting_zero_slack_fastest_unanswered", "waiting_slack_minus1_fastest_cancelled",
                   "waiting_slack_plus1_fastest_placed", "offered_at_release", "offered_at_deadline",
                   "waiting_at_deadline", "waiting_past_deadline", "waiting_beside_busy_worker",
                   "waiting_for_profile", "cancel_and_place_same_task"}
HistoryClass(x, c) ==
    CASE x = "later_invocation" -> CallNo(c) > 1
      [] x = "waiting_request"  -> WaitingReqs(c) # {}
      [] x = "waiting_placed"   -> \E t \in WaitingReqs(c) : PlacedNow(c, t)
      [] x = "waiting_cancelled" -> \E t \in WaitingReqs(c) : CancelledNow(c, t)
      [] x = "waiting_unanswered" -> \E t \in WaitingReqs(c) : DecsOf(c, t) = {}
      [] x = "first_seen_zero_slack"   -> SlackIs(c, FirstSeen(c), 0)
      [] x = "first_seen_slack_minus1" -> SlackIs(c, FirstSeen(c), -1)
      [] x = "first_seen_slack_plus1"  -> SlackIs(c, FirstSeen(c), 1)
      [] x = "waiting_zero_slack"   -> SlackIs(c, WaitingReqs(c), 0)
      [] x = "waiting_slack_minus1" -> SlackIs(c, WaitingReqs(c), -1)
      [] x = "waiting_slack_plus1"  -> SlackIs(c, WaitingReqs(c), 1)
      [] x = "waiting_zero_slack_fastest" -> \E t \in WaitingReqs(c) : FastestSlack(c, t) = 0
      [] x = "waiting_zero_slack_slower_strategy" ->
            \E t \in WaitingReqs(c) : \E k \in 1..Len(c.tasks[t].strats) :
                SlackOn(c, t, k) = 0 /\ c.tasks[t].strats[k].rt > MinRt(c, t)
      [] x = "waiting_zero_slack_fastest_placed" -> \E t \in WaitingReqs(c) : FastestSlack(c, t) = 0 /\ PlacedNow(c, t)
      [] x = "waiting_zero_slack_fastest_cancelled" -> \E t \in WaitingReqs(c) : FastestSlack(c, t) = 0 /\ CancelledNow(c, t)
      [] x = "waiting_zero_slack_fastest_unanswered" -> \E t \in WaitingReqs(c) : FastestSlack(c, t) = 0 /\ DecsOf(c, t) = {}
      [] x = "waiting_slack_minus1_fastest_cancelled" -> \E t \in WaitingReqs(c) : FastestSlack(c, t) = -1 /\ CancelledNow(c, t)
      [] x = "waiting_slack_plus1_fastest_placed" -> \E t \in WaitingReqs(c) : FastestSlack(c, t) = 1 /\ PlacedNow(c, t)
      [] x = "offered_at_release"  -> \E t \in Timed(c) : c.tasks[t].rel = c.now
      [] x = "offered_at_deadline" -> \E t \in Timed(c) : c.tasks[t].dl = c.now
      [] x = "waiting_at_deadline" -> \E t \in WaitingReqs(c) : c.tasks[t].dl = c.now
      [] x = "waiting_past_deadline" -> \E t \in WaitingReqs(c) : c.tasks[t].dl < c.now
      \* why it waits: every worker that could hold one of its strategies when empty is occupied / its model is
      \* held by no worker yet (loading or absent)
      [] x = "waiting_beside_busy_worker" ->
            \E t \in WaitingReqs(c) : FitWorkers(c, t) # {} /\ \A pw \in FitWorkers(c, t) : c.cluster[pw[1]][pw[2]].occ # <<>>
      [] x = "waiting_for_profile" ->
            \E t \in WaitingReqs(c) : TaskProf(c, t) # 0 /\
                \A p \in PoolIds(c) : \A w \in WorkerIds(c, p) :
                    ~\E j \in 1..Len(ProfsOf(c, p, w)) : ProfsOf(c, p, w)[j].pr = TaskProf(c, t) /\ ~ProfsOf(c, p, w)[j].pend
      \* (the violation of clause 1 this family is after: a CANCEL and a PLACE for one task in one answer)
      [] x = "cancel_and_place_same_task" -> \E t \in TaskIds(c) : PlacedNow(c, t) /\ CancelledNow(c, t)
History(c) == {x \in HistoryClasses : HistoryClass(x, c)}

\* which parts of the contract a record puts to work (vacuity counters of the harness)
Exercised(c) == History(c) \cup (
    LET I == Items(c)
        T == TaskIds(c)
    IN  {x \in {"decided", "placed", "unplaced", "cancel", "profile_decision", "offered_virtual", "offered_scheduled",
                "running", "scheduled", "kept_plan", "redecided_scheduled", "pool_chosen_worker", "named_worker",
                "future_start", "several_instants", "shared_worker", "worker_filled", "no_strategy", "batch",
                "preemptive", "enforcing", "running_redecided", "running_offered", "batch_joined", "held_profile",
                "held_profile_resources", "load", "evict", "load_after_evict",
                "running_past_deadline", "running_will_overrun", "running_little_left", "running_much_left",
                "scheduled_past_deadline", "scheduled_future", "scheduled_deferred", "offered_after_running_deadline",
                "offered_at_running_deadline", "disjoint_windows", "offered_only_fits_busy_worker",
                "offered_only_fits_planned_worker", "offered_hopeless_deadline", "offered_tight_deadline",
                "offered_loose_deadline", "placed_beside_overrun"} :
          CASE x = "decided"   -> Len(c.decs) > 0
            [] x = "placed"    -> PlacedDecs(c) # {}
            [] x = "unplaced"  -> \E i \in TaskDecs(c) : c.decs[i].kind = PLACE /\ ~c.decs[i].placed
            [] x = "cancel"    -> \E i \in TaskDecs(c) : c.decs[i].kind = CANCEL
            [] x = "profile_decision" -> ProfileDecs(c) # {}
            [] x = "offered_virtual"   -> \E t \in Offered(c) : Known(c, t) /\ St(c, t) = VIRTUAL
            [] x = "offered_scheduled" -> \E t \in Offered(c) : Known(c, t) /\ St(c, t) = SCHEDULED
            [] x = "running"   -> RunItems(c) # {}
            [] x = "scheduled" -> \E t \in T : St(c, t) = SCHEDULED
            [] x = "kept_plan" -> PlanItems(c) # {}
            [] x = "redecided_scheduled" -> \E t \in T : St(c, t) = SCHEDULED /\ DecsOf(c, t) # {}
            [] x = "pool_chosen_worker" -> \E it \in I : it.new /\ it.wk = 0 /\ Len(c.cluster[it.pool]) > 1
            [] x = "named_worker" -> \E it \in I : it.new /\ it.wk # 0
            [] x = "future_start" -> \E it \in I : it.new /\ it.s > c.now
            [] x = "several_instants" -> Cardinality(Instants(c, I)) > 1
            [] x = "shared_worker" ->
                  \E it \in I : it.new /\ it.wk # 0 /\
                      \E ot \in I : ot.key # it.key /\ ot.pool = it.pool /\ ot.wk = it.wk /\ Active(ot, it.s)
            [] x = "worker_filled" ->
                  \E it \in I : it.new /\ it.wk # 0 /\ \E k \in 1..Len(it.dem) :
                      Usage({ot \in I : ot.pool = it.pool /\ ot.wk = it.wk /\ Active(ot, it.s)}, it.dem[k].name)
                          = CapQ(c, it.pool, it.wk, it.dem[k].name)
            [] x = "no_strategy" -> \E i \in PlacedDecs(c) : c.decs[i].sd.rt = -1
            [] x = "batch" -> \E i \in PlacedDecs(c) : c.decs[i].sd.bid # 0
            [] x = "preemptive" -> Preemptive(c)
            [] x = "enforcing"  -> Enforcing(c)
            [] x = "running_redecided" -> \E t \in T : St(c, t) = RUNNING /\ DecsOf(c, t) # {}
            [] x = "running_offered"   -> \E t \in Offered(c) : Known(c, t) /\ St(c, t) = RUNNING
            [] x = "batch_joined" -> \E i \in PlacedDecs(c) : c.decs[i].sd.bid # 0 /\
                                        \E it \in I : ~it.new /\ it.bid = c.decs[i].sd.bid
            [] x = "held_profile" -> \E it \in I : it.key[1] = 4
            [] x = "held_profile_resources" -> \E it \in I : it.key[1] = 4 /\ Len(it.dem) > 0
            [] x = "load"  -> \E i \in ProfileDecs(c) : c.decs[i].kind = LOAD
            [] x = "evict" -> \E i \in ProfileDecs(c) : c.decs[i].kind = EVICT
            [] x = "load_after_evict" -> \E i, j \in ProfileDecs(c) : c.decs[i].kind = LOAD /\ c.decs[j].kind = EVICT
                                            /\ c.decs[i].pool = c.decs[j].pool /\ c.decs[i].wk = c.decs[j].wk
            \* the classes of reachable states the direct calls must contain (DESIGN 5, C10)
            [] x = "running_past_deadline" -> \E t \in Occupants(c) : c.tasks[t].dl < c.now
            [] x = "running_will_overrun"  -> \E t \in Occupants(c) : c.tasks[t].dl >= c.now /\ c.now + c.tasks[t].rem > c.tasks[t].dl
            [] x = "running_little_left"   -> \E t \in Occupants(c) : c.tasks[t].rem <= 2
            [] x = "running_much_left"     -> \E t \in Occupants(c) : c.tasks[t].rem >= 5
            [] x = "scheduled_past_deadline" -> \E t \in T : St(c, t) = SCHEDULED /\ c.tasks[t].dl < c.now
            [] x = "scheduled_future" -> \E t \in T : St(c, t) = SCHEDULED /\ c.tasks[t].plan.tm > c.now
            \* a plan whose time has passed: the placement was deferred (WORKER_NOT_READY / TASK_NOT_READY)
            [] x = "scheduled_deferred" -> \E t \in T : St(c, t) = SCHEDULED /\ c.tasks[t].plan.pool # 0 /\ c.tasks[t].plan.tm < c.now
            [] x = "offered_after_running_deadline" ->
                  \E o \in Fresh(c), t \in Occupants(c) : c.tasks[o].rel > c.tasks[t].dl
            [] x = "offered_at_running_deadline" ->
                  \E o \in Fresh(c), t \in Occupants(c) : c.tasks[o].rel = c.tasks[t].dl
            [] x = "disjoint_windows" ->
                  \E o \in Fresh(c), t \in T : St(c, t) \in {RUNNING, SCHEDULED} /\
                      (c.tasks[t].dl < c.tasks[o].rel \/ c.tasks[o].dl < c.tasks[t].rel)
            [] x = "offered_only_fits_busy_worker" ->
                  \E o \in Fresh(c) : Cardinality(FitWorkers(c, o)) = 1 /\
                      \E pw \in FitWorkers(c, o) : c.cluster[pw[1]][pw[2]].occ # <<>>
            [] x = "offered_only_fits_planned_worker" ->
                  \E o \in Fresh(c) : Cardinality(FitWorkers(c, o)) = 1 /\
                      \E pw \in FitWorkers(c, o), t \in T : St(c, t) = SCHEDULED /\ c.tasks[t].plan.tm > c.now
                                                            /\ c.tasks[t].plan.pool = pw[1] /\ c.tasks[t].plan.wk = pw[2]
            [] x = "offered_hopeless_deadline" -> \E o \in Fresh(c) : c.tasks[o].dl < Earliest(c, o) + MinRt(c, o)
            [] x = "offered_tight_deadline" ->
                  \E o \in Fresh(c) : c.tasks[o].dl >= Earliest(c, o) + MinRt(c, o) /\ c.tasks[o].dl <= Earliest(c, o) + MinRt(c, o) + 2
            [] x = "offered_loose_deadline" -> \E o \in Fresh(c) : c.tasks[o].dl >= Earliest(c, o) + 2 * MinRt(c, o) + 4
            \* a new placement shares a worker with a running task that has passed its deadline, later on
            [] x = "placed_beside_overrun" ->
                  \E it \in I : it.new /\ it.wk # 0 /\ \E ot \in I : ot.key[1] = 1 /\ ot.pool = it.pool /\ ot.wk = it.wk
                                                             /\ ot.t \in T /\ c.tasks[ot.t].dl < c.now})

\* one line per failing (record, clause) and one line per record; always TRUE
Judge(c) ==
    /\ \A k \in 1..Len(ClauseNames) :
          LET o == Offenders(ClauseNames[k], c)
          IN  o = {} \/ PrintT(<<"@@f", c.id, ClauseNames[k], o, Circ(ClauseNames[k], c)>>)
    /\ \A k \in 1..Len(SideNames) :
          LET o == Offenders(SideNames[k], c) IN o = {} \/ PrintT(<<"@@s", c.id, SideNames[k], o>>)
    /\ PrintT(<<"@@x", c.id, Exercised(c)>>)
JudgeAll(R) == \A i \in 1..Len(R) : Judge(R[i])

-----------------------------------------------------------------------------
(* DecisionMC: the contract judged on hand-written records - every clause is *)
(* satisfiable (the base records pass) and falsifiable (each variant fails    *)
(* exactly the intended clause).  Evaluated by an ASSUME of the generated MC. *)
Gpu(q) == <<[name |-> "gpu", id |-> "any", q |-> q]>>
NoSd   == [dem |-> <<>>, rt |-> -1, bs |-> 0, bid |-> 0]
NoPlan == [pool |-> 0, wk |-> 0, sd |-> NoSd, tm |-> -1]
Sd(q, rt) == [dem |-> Gpu(q), rt |-> rt, bs |-> 1, bid |-> 0]
Str(q, rt) == [dem |-> Gpu(q), rt |-> rt, bs |-> 1]
Tk(st, rel, strats, plan, rem) ==
    [st |-> st, rel |-> rel, dl |-> 50, strats |-> strats, plan |-> plan, rem |-> rem]
Wkr(cap, av, occ) == [insts |-> <<[name |-> "gpu", id |-> "g", cap |-> cap]>>, av |-> <<av>>, occ |-> occ]
Place(t, p, w, sd, tm) == [kind |-> PLACE, t |-> t, placed |-> TRUE, pool |-> p, wk |-> w, sd |-> sd, tm |-> tm]
Unplaced(t) == [kind |-> PLACE, t |-> t, placed |-> FALSE, pool |-> 0, wk |-> 0, sd |-> NoSd, tm |-> -1]
Cancel(t)   == [kind |-> CANCEL, t |-> t, placed |-> FALSE, pool |-> 0, wk |-> 0, sd |-> NoSd, tm |-> -1]
Snap(c) == [ts |-> [t \in TaskIds(c) |-> [st |-> c.tasks[t].st, plan |-> c.tasks[t].plan]],
            cl |-> [p \in PoolIds(c) |-> [w \in WorkerIds(c, p) |-> c.cluster[p][w].av]]]
WithSnap(c) == [c EXCEPT !.pre = Snap(c), !.post = Snap(c)]

\* now = 10; one pool: worker 1 (2 gpus, task 1 runs on one of them until 13), worker 2 (1 gpu);
\* task 2 is SCHEDULED on worker 2 at 12 for 3; tasks 3 and 4 are offered; task 5 is a VIRTUAL child
SanityTasks ==
    << Tk(RUNNING, 5, <<Str(1, 8)>>, Place(1, 1, 1, Sd(1, 8), 5), 3),
       Tk(SCHEDULED, 8, <<Str(1, 3)>>, [pool |-> 1, wk |-> 2, sd |-> Sd(1, 3), tm |-> 12], 3),
       Tk(RELEASED, 9, <<Str(2, 4), Str(1, 6)>>, NoPlan, 6),
       Tk(RELEASED, 10, <<Str(1, 2)>>, NoPlan, 2),
       Tk(VIRTUAL, -1, <<Str(1, 2)>>, NoPlan, 2) >>
SanityCluster ==
    << << Wkr(2, 1, <<[t |-> 1, dem |-> Gpu(1), fin |-> 13, bid |-> 0]>>), Wkr(1, 1, <<>>) >> >>
Conv(gap, inst, lb) == [gap |-> gap, instants |-> inst, plans |-> "kept", startLB |-> lb, grid |-> 1]
ConvPre == [gap |-> 0, instants |-> "now", plans |-> "ignored", startLB |-> 0, grid |-> 1, preemptive |-> TRUE, enforce |-> FALSE]
WkrP(cap, av, prof) == [insts |-> <<[name |-> "gpu", id |-> "g", cap |-> cap]>>, av |-> <<av>>, occ |-> <<>>, prof |-> prof]
Load(pr, p, w, sd, tm) == [kind |-> LOAD, t |-> 0, placed |-> TRUE, pool |-> p, wk |-> w, sd |-> sd, tm |-> tm, pr |-> pr]
Evict(pr, p, w, tm) == [kind |-> EVICT, t |-> 0, placed |-> TRUE, pool |-> p, wk |-> w, sd |-> NoSd, tm |-> tm, pr |-> pr]
SanityCall(policy, conv, decs) ==
    WithSnap([id |-> 0, policy |-> policy, conv |-> conv, now |-> 10, raised |-> "", offered |-> <<3, 4>>,
              tasks |-> SanityTasks, cluster |-> SanityCluster, decs |-> decs, pre |-> <<>>, post |-> <<>>])

\* ILP-like: closed intervals, every start point; 3 waits for the running task (14 > 13), 4 shares worker 2
\* with the kept plan of task 2 only after it ended (12 + 3 + 1)
GoodIlp == SanityCall("ilp", Conv(1, "starts", 1), <<Place(3, 1, 1, Sd(2, 4), 14), Place(4, 1, 2, Sd(1, 2), 16)>>)
\* greedy: at "now", workers chosen by the pool: 4 fits beside the running task or on worker 2, 3 is answered unplaced
GoodEdf == SanityCall("edf", Conv(0, "now", 0), <<Place(4, 1, 0, Sd(1, 2), 10), Unplaced(3)>>)
\* half-open slots: 4 may start on worker 2 exactly when... it ends at 12 where the plan of task 2 starts
GoodSlots == SanityCall("ts_cplex", Conv(0, "starts", 0), <<Place(4, 1, 2, Sd(1, 2), 10), Cancel(3)>>)

\* the third invocation of a Clockwork object: task 3 has been offered twice before and is still RELEASED
GoodWaiting == [SanityCall("clockwork", [Conv(0, "now", 0) EXCEPT !.plans = "ignored"],
                           <<Place(3, 1, 2, Sd(1, 6), 10), Place(4, 1, 1, Sd(1, 2), 10)>>)
                   EXCEPT !.tasks[3].dl = 16] @@ [hist |-> [call |-> 3, seen |-> <<1, 1, 2, 0, 0>>]]

FailsExactly(c, cls) == Failing(c) = cls
SanityOK ==
    /\ ValidDecision(GoodIlp) /\ ValidDecision(GoodEdf) /\ ValidDecision(GoodSlots)
    \* (0)
    /\ FailsExactly([GoodEdf EXCEPT !.raised = "ValueError", !.decs = <<>>], {"C10.returns"})
    \* (1) two answers for task 4
    /\ FailsExactly([GoodEdf EXCEPT !.decs = Append(@, Unplaced(4))], {"C10.one_per_task"})
    \* (2) an answer for the VIRTUAL task 5 that was not offered; for the running task 1
    /\ FailsExactly([GoodEdf EXCEPT !.decs = Append(@, Unplaced(5))], {"C10.only_offered"})
    /\ FailsExactly([GoodEdf EXCEPT !.decs = Append(@, Cancel(1))], {"C10.only_offered"})
    \*     ... but the SCHEDULED task 2 may be re-decided although it was not offered
    /\ ValidDecision([GoodIlp EXCEPT !.decs = Append(@, Place(2, 1, 2, Sd(1, 3), 11))])
    \* (3) a planner leaves the offered task 3 without an answer; Clockwork may
    /\ FailsExactly([GoodEdf EXCEPT !.decs = <<Place(4, 1, 0, Sd(1, 2), 10)>>], {"C10.answers_all"})
    /\ ValidDecision([GoodEdf EXCEPT !.policy = "clockwork", !.decs = <<Place(4, 1, 0, Sd(1, 2), 10)>>])
    \* (4) unknown pool / worker of another pool; foreign strategy; past; before release
    /\ FailsExactly([GoodEdf EXCEPT !.decs[1].pool = 2], {"C10.names_exist"})
    /\ FailsExactly([GoodEdf EXCEPT !.decs[1].wk = -1], {"C10.names_exist"})
    /\ FailsExactly([GoodEdf EXCEPT !.decs[1].sd = Sd(1, 3)], {"C10.strategy_of_task"})
    /\ FailsExactly([GoodEdf EXCEPT !.decs[1].tm = 9], {"C10.time_not_past", "C10.time_not_before_release"})
    /\ FailsExactly([GoodIlp EXCEPT !.tasks[4].rel = 17], {"C10.time_not_before_release"})
    \* (5) closed intervals: 3 may not start at 13 where the running task ends, half-open slots allow it
    /\ FailsExactly([GoodIlp EXCEPT !.decs[1].tm = 13], {"C10.capacity"})
    /\ Capacity([GoodIlp EXCEPT !.decs[1].tm = 13]) = {3}
    /\ ValidDecision([GoodIlp EXCEPT !.decs[1].tm = 13, !.conv = Conv(0, "starts", 0)])
    \*     the kept plan of task 2 (12..15 on worker 2) counts: 4 may not start at 15 / overlap it at 11
    /\ FailsExactly([GoodIlp EXCEPT !.decs[2].tm = 15], {"C10.capacity"})
    /\ FailsExactly([GoodSlots EXCEPT !.decs[1].tm = 11], {"C10.capacity"})
    \*     ... unless this call re-decides task 2 (the old plan is void)
    /\ ValidDecision([GoodSlots EXCEPT !.decs = <<Place(4, 1, 2, Sd(1, 2), 11), Cancel(3), Unplaced(2)>>])
    \*     pool-chosen workers: 3 (2 gpus) and 4 (1 gpu) cannot both be placed now on {1 free, 1 free};
    \*     4 and the 1-gpu strategy of 3 can (one on each worker)
    /\ FailsExactly([GoodEdf EXCEPT !.decs = <<Place(4, 1, 0, Sd(1, 2), 10), Place(3, 1, 0, Sd(2, 4), 10)>>], {"C10.capacity"})
    /\ ValidDecision([GoodEdf EXCEPT !.decs = <<Place(4, 1, 0, Sd(1, 2), 10), Place(3, 1, 0, Sd(1, 6), 10)>>])
    \*     the greedy convention plans "now" only: the kept plan of task 2 at 12 is not looked at
    /\ ValidDecision([GoodEdf EXCEPT !.decs = <<Place(4, 1, 2, Sd(1, 2), 10), Place(3, 1, 2, Sd(1, 6), 11)>>]) = FALSE
    /\ ValidDecision([GoodEdf EXCEPT !.decs = <<Place(4, 1, 1, Sd(1, 2), 10), Place(3, 1, 2, Sd(1, 6), 10)>>])
    /\ FailsExactly([GoodEdf EXCEPT !.conv = Conv(0, "starts", 0),
                                    !.decs = <<Place(4, 1, 1, Sd(1, 2), 10), Place(3, 1, 2, Sd(1, 6), 10)>>], {"C10.capacity"})
    \*     the instant-only policies are judged on the live cluster: pending plans are not theirs to respect
    /\ ValidDecision([GoodEdf EXCEPT !.conv.plans = "ignored", !.decs = <<Place(4, 1, 2, Sd(1, 2), 10), Place(3, 1, 2, Sd(1, 6), 12)>>])
    /\ FailsExactly([GoodEdf EXCEPT !.decs = <<Place(4, 1, 2, Sd(1, 2), 10), Place(3, 1, 2, Sd(1, 6), 12)>>], {"C10.capacity"})
    /\ ValidDecision([GoodEdf EXCEPT !.conv.plans = "ignored", !.tasks[2].plan.tm = 10, !.decs = <<Place(4, 1, 2, Sd(1, 2), 10), Unplaced(3)>>])
    /\ FailsExactly([GoodEdf EXCEPT !.tasks[2].plan.tm = 10, !.decs = <<Place(4, 1, 2, Sd(1, 2), 10), Unplaced(3)>>], {"C10.capacity"})
    \*     an over-commitment that exists before the call is not charged to an innocent answer
    /\ ValidDecision([GoodSlots EXCEPT !.tasks[3] = Tk(SCHEDULED, 9, <<Str(1, 6)>>, [pool |-> 1, wk |-> 2, sd |-> Sd(1, 6), tm |-> 13], 6),
                                       !.offered = <<4>>, !.decs = <<Place(4, 1, 2, Sd(1, 2), 10)>>])
    \*     members of one batch share an allocation
    /\ ValidDecision([GoodEdf EXCEPT !.policy = "clockwork",
          !.decs = <<Place(4, 1, 2, [Sd(1, 2) EXCEPT !.bid = 7], 10), Place(3, 1, 2, [Sd(1, 6) EXCEPT !.bid = 7], 10)>>,
          !.tasks[4].strats = <<Str(1, 2), Str(1, 6)>>])
    \*     no strategy reported (Z3): some strategy of the task must fit - 3 on worker 2 (1 gpu) can only
    \*     take its 1-gpu strategy; on worker 1 beside the running task likewise; a 2-gpu-only task fits nowhere now
    /\ ValidDecision([GoodSlots EXCEPT !.policy = "z3", !.decs = <<Place(3, 1, 2, NoSd, 15)>>])
    /\ ValidDecision([GoodSlots EXCEPT !.policy = "z3", !.decs = <<Place(3, 1, 1, NoSd, 10)>>])
    /\ FailsExactly([GoodSlots EXCEPT !.policy = "z3", !.decs = <<Place(3, 1, 1, NoSd, 10)>>,
                                      !.tasks[3].strats = <<Str(2, 4)>>], {"C10.capacity"})
    /\ CapacityCirc([GoodSlots EXCEPT !.policy = "z3", !.decs = <<Place(3, 1, 1, NoSd, 10)>>,
                                      !.tasks[3].strats = <<Str(2, 4)>>]) = {"new", "running"}
    /\ FailsExactly([GoodSlots EXCEPT !.policy = "z3", !.decs = <<Place(3, 1, 2, NoSd, 11)>>], {"C10.capacity"})
    \* preemptive convention: the RUNNING task 1 is offered and may be answered (kept on its pool now, or preempted -
    \* its gpu is then free for the 2-gpu strategy of task 3); without the convention the answer is not allowed, and
    \* without the preemption task 3 does not fit
    /\ ValidDecision([GoodEdf EXCEPT !.conv = ConvPre, !.offered = <<1, 3, 4>>,
                                     !.decs = <<Place(1, 1, 0, Sd(1, 8), 10), Place(4, 1, 0, Sd(1, 2), 10), Unplaced(3)>>])
    /\ FailsExactly([GoodEdf EXCEPT !.conv.plans = "ignored", !.offered = <<1, 3, 4>>,
                                    !.decs = <<Place(1, 1, 0, Sd(1, 8), 10), Place(4, 1, 0, Sd(1, 2), 10), Unplaced(3)>>], {"C10.only_offered"})
    /\ FailsExactly([GoodEdf EXCEPT !.conv = ConvPre, !.decs = <<Place(1, 1, 0, Sd(1, 8), 10), Place(4, 1, 0, Sd(1, 2), 10), Unplaced(3)>>],
                    {"C10.only_offered"})
    /\ ValidDecision([GoodEdf EXCEPT !.conv = ConvPre, !.offered = <<1, 3, 4>>,
                                     !.decs = <<Unplaced(1), Place(3, 1, 1, Sd(2, 4), 10), Place(4, 1, 2, Sd(1, 2), 10)>>])
    /\ FailsExactly([GoodEdf EXCEPT !.conv = ConvPre, !.offered = <<1, 3, 4>>,
                                    !.decs = <<Place(1, 1, 1, Sd(1, 8), 10), Place(3, 1, 1, Sd(2, 4), 10), Place(4, 1, 2, Sd(1, 2), 10)>>],
                    {"C10.capacity"})
    /\ FailsExactly([GoodEdf EXCEPT !.conv = ConvPre, !.offered = <<3, 4>>,
                                    !.decs = <<Place(3, 1, 1, Sd(2, 4), 10), Place(4, 1, 2, Sd(1, 2), 10)>>], {"C10.capacity"})
    \* held profiles: worker 2 holds profile 1 whose loading strategy keeps the only gpu - task 4 does not fit there
    \* unless this call evicts the profile; a LOAD holds resources from its time on
    /\ FailsExactly([GoodEdf EXCEPT !.cluster[1][2] = WkrP(1, 0, <<[pr |-> 1, dem |-> Gpu(1), pend |-> FALSE]>>),
                                    !.decs = <<Place(4, 1, 2, Sd(1, 2), 10), Unplaced(3)>>], {"C10.capacity"})
    /\ CapacityCirc([GoodEdf EXCEPT !.cluster[1][2] = WkrP(1, 0, <<[pr |-> 1, dem |-> Gpu(1), pend |-> FALSE]>>),
                                    !.decs = <<Place(4, 1, 2, Sd(1, 2), 10), Unplaced(3)>>]) = {"held_profile", "new"}
    /\ ValidDecision([GoodEdf EXCEPT !.cluster[1][2] = WkrP(1, 0, <<[pr |-> 1, dem |-> Gpu(1), pend |-> FALSE]>>),
                                     !.decs = <<Evict(1, 1, 2, 10), Place(4, 1, 2, Sd(1, 2), 10), Unplaced(3)>>])
    /\ Offenders("conv.evict_held", [GoodEdf EXCEPT !.decs = <<Evict(1, 1, 2, 10), Place(4, 1, 2, Sd(1, 2), 10), Unplaced(3)>>]) = {-10001}
    /\ FailsExactly([GoodEdf EXCEPT !.decs = <<Load(2, 1, 2, Sd(1, 5), 10), Place(4, 1, 2, Sd(1, 2), 10), Unplaced(3)>>], {"C10.capacity"})
    /\ ValidDecision([GoodEdf EXCEPT !.decs = <<Load(2, 1, 2, Sd(1, 5), 10), Place(4, 1, 1, Sd(1, 2), 10), Unplaced(3)>>])
    /\ FailsExactly([GoodEdf EXCEPT !.decs = <<Load(2, 1, 3, Sd(1, 5), 10), Place(4, 1, 1, Sd(1, 2), 10), Unplaced(3)>>], {"C10.names_exist"})
    \* a batch is at most its size
    /\ Offenders("conv.batch_size", [GoodEdf EXCEPT !.policy = "clockwork",
          !.decs = <<Place(4, 1, 2, [Sd(1, 2) EXCEPT !.bid = 7], 10), Place(3, 1, 2, [Sd(1, 6) EXCEPT !.bid = 7], 10)>>]) = {3, 4}
    \* two answers: the circumstance tells why
    /\ Circ("C10.one_per_task", [GoodEdf EXCEPT !.decs = Append(@, Unplaced(4))]) = {"distinct_answers"}
    /\ Circ("C10.one_per_task", [GoodEdf EXCEPT !.decs = Append(@, Unplaced(3))]) = {"same_answer"}
    /\ Circ("C10.one_per_task", [GoodEdf EXCEPT !.offered = <<3, 4, 3>>, !.decs = Append(@, Unplaced(3))]) = {"offered_twice"}
    \* (6) a task state, a plan or an availability differs after the call
    /\ FailsExactly([GoodEdf EXCEPT !.post.ts[3].st = SCHEDULED], {"C10.side_effect_free"})
    /\ SideEffectFree([GoodEdf EXCEPT !.post.cl[1][2] = <<0>>]) = {-102}
    \* side clauses
    /\ Offenders("conv.start_lb", [GoodIlp EXCEPT !.decs[1].tm = 10]) = {3}
    /\ Offenders("conv.grid", [GoodSlots EXCEPT !.conv.grid = 4]) = {}
    /\ Offenders("conv.grid", [GoodSlots EXCEPT !.conv.grid = 4, !.decs[1].tm = 11]) = {4}
    \* histories: a stateful policy answers a request that has been waiting since an earlier invocation - a CANCEL and
    \* a PLACE for it in one answer are two decisions (whatever the instant); each of them alone is one
    /\ FailsExactly([GoodWaiting EXCEPT !.decs = <<Cancel(3), Place(3, 1, 2, Sd(1, 6), 10), Place(4, 1, 1, Sd(1, 2), 10)>>], {"C10.one_per_task"})
    /\ Circ("C10.one_per_task", [GoodWaiting EXCEPT !.decs = <<Cancel(3), Place(3, 1, 2, Sd(1, 6), 10), Place(4, 1, 1, Sd(1, 2), 10)>>])
          = {"distinct_answers"}
    /\ ValidDecision(GoodWaiting)
    /\ ValidDecision([GoodWaiting EXCEPT !.decs = <<Cancel(3), Place(4, 1, 1, Sd(1, 2), 10)>>])
    \*     task 3 (deadline 16 = now + 6: zero slack on its 1-gpu strategy, slack 2 on the fastest) was offered twice before
    /\ History(GoodWaiting) = {"later_invocation", "waiting_request", "waiting_placed", "waiting_zero_slack",
                               "waiting_zero_slack_slower_strategy", "offered_at_release"}
    /\ History([GoodWaiting EXCEPT !.tasks[3].dl = 14, !.decs = <<Cancel(3), Place(3, 1, 2, Sd(1, 6), 10), Place(4, 1, 1, Sd(1, 2), 10)>>])
          = {"later_invocation", "waiting_request", "waiting_placed", "waiting_cancelled", "waiting_zero_slack",
             "waiting_zero_slack_fastest", "waiting_zero_slack_fastest_placed", "waiting_zero_slack_fastest_cancelled",
             "offered_at_release", "cancel_and_place_same_task"}
    /\ History(GoodEdf) = {"offered_at_release"}
=============================================================================
