----------------------------- MODULE PlanRules -----------------------------
(* C11 / C12 - what a planner's answer has to satisfy, over one planner call. *)
(*                                                                            *)
(* instance I = [policy, enforce, now, grid, horizon, workers, step,          *)
(*               batching, tasks]                                            *)
(*   policy  : "ILP" (task by task), "ILP_RTG" (release_taskgraphs), "TSG"     *)
(*             (TetriSched-Gurobi), "TSC" (TetriSched-CPLEX), "Z3", "EDF",     *)
(*             "FIFO", "CW" (Clockwork)                                        *)
(*   enforce : enforce_deadlines of the policy                                *)
(*   grid    : time discretisation (1 unless TetriSched)                      *)
(*   horizon : last start time the enumeration / the pool projection looks at  *)
(*   workers : sequence (one per worker) of capacity vectors: one capacity per *)
(*             resource type (name); a type the worker does not have is 0.    *)
(*             How a capacity is split over resource ids ({GPU:g0:1,GPU:g1:1}) *)
(*             is not part of the instance: requests name no id.               *)
(*   step    : 1, or i > 1 for the i-th invocation of one scheduler object in  *)
(*             a multi-invocation scenario (the earlier answers were applied   *)
(*             to the tasks / workers the way the Simulator does; the          *)
(*             instance is the state at invocation i)                          *)
(*   batching: the policy batches tasks of one work profile (ILP, TSC)         *)
(*   tasks   : sequence in topological order (parents have smaller indices) of *)
(*     [state   : "REL" | "VIRT" | "RUN" | "SCHED" | "DONE" | "CANC",          *)
(*      release, deadline,                                                    *)
(*      strats  : sequence of [dem, rt, bs]; dem: demand vector (one quantity *)
(*                per resource type); bs > 1: the strategy runs a             *)
(*                batch of bs tasks of the profile together (one demand, one  *)
(*                runtime, same worker and start for all members),            *)
(*      prof    : 0, or the number of the work profile shared with others,     *)
(*      parents : sequence of task indices,                                   *)
(*      fin     : expected finish of a RUN (now + remaining) / SCHED (planned  *)
(*                start + chosen runtime) task, completion time of a DONE one, *)
(*                -1 otherwise,                                               *)
(*      cur     : [w, s, k] current placement of a RUN / SCHED task,           *)
(*      offered : the policy's get_schedulable_tasks call returned the task,   *)
(*      dec     : the task is decided by this invocation (offered, or          *)
(*                SCHEDULED and re-planned by the policy),                    *)
(*      must    : the policy's model has to place it (SCHEDULED, no retract),  *)
(*      dlenf   : the policy's model carries a deadline constraint for it]     *)
(* decisions d : sequence, one per task, of [kind, w, s, k, c];                *)
(*      kind "place" (worker w, start s, strategy k), "unplaced", "cancel",    *)
(*      "none" (no Placement for the task); c: the answer (also) contains a    *)
(*      cancellation of the task (TRUE for kind "cancel"; TRUE with kind       *)
(*      "place" when one answer both cancels and places the task).             *)
(* call record r = [id, src ("returned" | "pool" | "e2e"), inst, dec].         *)
(*                                                                            *)
(* Statement level (what C11 / C12 say, decides VIOLATIONs):                   *)
(*   ParentsPlaced, ChildAfterParent(.., "stmt"), ChildAfterRunning,           *)
(*   DeadlineOK, Admit, HopelessCancelled, HopelessNotPlaced, CompletedOK.     *)
(* Convention level (DESIGN 7; the decision space of each policy as coded:     *)
(*   +1 gaps, slowest runtimes, closed / half-open occupancy, start bounds):   *)
(*   Conv, OtherRules - used only to enumerate plans that break exactly one    *)
(*   rule (PlansViolatingOnly) and for `conv.*` notes, never for a VIOLATION.  *)
EXTENDS Integers, Sequences, FiniteSets, TLC

CONSTANTS Records, NRecords,   \* T : call records to judge
          Insts, NInsts,       \* R : instances whose rule-breaking plans are enumerated
          Rule                 \* R : "precedence" | "deadline"

VARIABLES idx, plan
vars == <<idx, plan>>

TheRecords == Records
TheInsts   == Insts

Tup(f) == f \o <<>>
SetMin(S) == CHOOSE m \in S : \A x \in S : m <= x
SetMax(S) == CHOOSE m \in S : \A x \in S : x <= m
Max2(a, b) == IF a >= b THEN a ELSE b
Min2(a, b) == IF a <= b THEN a ELSE b
RECURSIVE SumOver(_, _)
SumOver(S, f) == IF S = {} THEN 0 ELSE LET x == CHOOSE x \in S : TRUE IN f[x] + SumOver(S \ {x}, f)

-----------------------------------------------------------------------------
(* per-policy conventions (named constants of the specification)             *)
DagPolicies      == {"ILP", "ILP_RTG", "TSG", "Z3"}          \* C11
CancelPolicies   == {"EDF", "FIFO", "CW", "TSC"}             \* C12: hopeless -> CANCEL
UnplacedPolicies == {"ILP", "TSG"}                           \* C12: hopeless -> left unplaced
DeadlinePolicies == {"ILP", "TSG", "TSC", "CW"}              \* C12: placed => finishes by the deadline

\* gap     : child >= parent + rt + gap           precRt : runtime of the parent in that constraint
\* startLB : start >= now + startLB               sep    : two occupancies on a worker conflict unless
\*                                                           s1 >= s2 + r2 + sep (1: closed intervals, 0: half-open)
\* runRt   : occupancy / precedence of a RUNNING task counted from now: "full" strategy runtime or "rem"aining
Conv(p) ==
    CASE p \in {"ILP", "ILP_RTG"} -> [gap |-> 1, precRt |-> "chosen",  startLB |-> 1, sep |-> 1, runRt |-> "full", runGap |-> 1]
      [] p \in {"TSG", "TSC"}     -> [gap |-> 1, precRt |-> "slowest", startLB |-> 0, sep |-> 0, runRt |-> "full", runGap |-> 1]
      [] p = "Z3"                 -> [gap |-> 0, precRt |-> "slowest", startLB |-> 0, sep |-> 1, runRt |-> "none", runGap |-> 0]
      [] OTHER                    -> [gap |-> 0, precRt |-> "chosen",  startLB |-> 0, sep |-> 0, runRt |-> "rem",  runGap |-> 0]

-----------------------------------------------------------------------------
(* instances and decisions *)
TaskIds(I)    == 1..Len(I.tasks)
Parents(I, t) == {I.tasks[t].parents[i] : i \in 1..Len(I.tasks[t].parents)}
StratIds(I, t) == 1..Len(I.tasks[t].strats)
Rt(I, t, k)   == I.tasks[t].strats[k].rt
Dem(I, t, k)  == I.tasks[t].strats[k].dem          \* a vector: one quantity per resource type
ResIds(I)     == 1..Len(I.workers[1])
Bs(I, t, k)   == I.tasks[t].strats[k].bs
FastestRt(I, t) == SetMin({Rt(I, t, k) : k \in StratIds(I, t)})
SlowestRt(I, t) == SetMax({Rt(I, t, k) : k \in StratIds(I, t)})

RECURSIVE Ancestors(_, _)
Ancestors(I, t) == Parents(I, t) \cup UNION {Ancestors(I, p) : p \in Parents(I, t)}
\* Graph.are_dependent on the shapes used here (no skip edges)
Dependent(I, u, v) == u \in Ancestors(I, v) \/ v \in Ancestors(I, u)

None       == [kind |-> "none", w |-> 0, s |-> 0, k |-> 0, c |-> FALSE]
Unplaced   == [kind |-> "unplaced", w |-> 0, s |-> 0, k |-> 0, c |-> FALSE]
Place(w, s, k) == [kind |-> "place", w |-> w, s |-> s, k |-> k, c |-> FALSE]

Dom(d)        == 1..Len(d)            \* d may be a prefix (enumeration)
Placed(d, t)  == d[t].kind = "place"
Decided(d, t) == d[t].kind # "none"
Cancelled(d, t) == d[t].kind = "cancel" \/ d[t].c

WellFormedInst(I) ==
    /\ Len(I.tasks) >= 1 /\ Len(I.workers) >= 1 /\ I.grid >= 1
    /\ Len(I.workers[1]) >= 1
    /\ \A w \in 1..Len(I.workers) : Len(I.workers[w]) = Len(I.workers[1]) /\ \A r \in ResIds(I) : I.workers[w][r] >= 0
    /\ \A t \in TaskIds(I) :
          /\ I.tasks[t].state \in {"REL", "VIRT", "RUN", "SCHED", "DONE", "CANC"}
          /\ Len(I.tasks[t].strats) >= 1
          /\ \A k \in StratIds(I, t) :
                /\ Rt(I, t, k) >= 1 /\ Bs(I, t, k) >= 1
                /\ Len(Dem(I, t, k)) = Len(I.workers[1]) /\ \A r \in ResIds(I) : Dem(I, t, k)[r] >= 0
          /\ I.tasks[t].prof >= 0
          /\ \A p \in Parents(I, t) : p \in 1..(t - 1)
          /\ I.tasks[t].state \in {"RUN", "SCHED"} =>
                /\ I.tasks[t].cur.w \in 1..Len(I.workers)
                /\ I.tasks[t].cur.k \in StratIds(I, t)

WellFormedDec(I, d) ==
    /\ Len(d) = Len(I.tasks)
    /\ \A t \in Dom(d) :
          /\ d[t].kind \in {"place", "unplaced", "cancel", "none"}
          /\ d[t].c \in BOOLEAN /\ (d[t].kind = "cancel" => d[t].c) /\ (d[t].c => d[t].kind \in {"cancel", "place"})
          /\ Placed(d, t) => d[t].w \in 1..Len(I.workers) /\ d[t].k \in StratIds(I, t)

-----------------------------------------------------------------------------
(* C11, statement level *)
\* the runtime of a predecessor the statement speaks of: the chosen strategy's;
\* Z3 reports no strategy: the worst case (Task.remaining_time of an unstarted task)
StmtRt(I, d, p) == IF I.policy = "Z3" THEN SlowestRt(I, p) ELSE Rt(I, p, d[p].k)
ConvRt(I, d, p) == IF Conv(I.policy).precRt = "slowest" THEN SlowestRt(I, p) ELSE Rt(I, p, d[p].k)

\* (child, parent) pairs both decided by this invocation, child placed
DecidedPairs(I, d) ==
    {<<c, p>> \in Dom(d) \X Dom(d) : Placed(d, c) /\ p \in Parents(I, c) /\ Decided(d, p)}
\* child placed, parent not decided here but already RUNNING / SCHEDULED
RunningPairs(I, d) ==
    {<<c, p>> \in Dom(d) \X Dom(d) :
        Placed(d, c) /\ p \in Parents(I, c) /\ ~Decided(d, p) /\ I.tasks[p].state \in {"RUN", "SCHED"}}

ParentsPlaced(I, d) == \A e \in DecidedPairs(I, d) : Placed(d, e[2])

\* earliest start the child may have because of parent p (both decided, p placed)
NeedAfter(I, d, p, lvl) ==
    IF lvl = "stmt" THEN d[p].s + StmtRt(I, d, p)
    ELSE d[p].s + ConvRt(I, d, p) + Conv(I.policy).gap

ChildAfterParent(I, d, lvl) ==
    \A e \in DecidedPairs(I, d) : Placed(d, e[2]) => d[e[1]].s >= NeedAfter(I, d, e[2], lvl)

ChildAfterRunning(I, d) ==
    \A e \in RunningPairs(I, d) : d[e[1]].s >= I.tasks[e[2]].fin

PrecedenceOK(I, d) ==
    ParentsPlaced(I, d) /\ ChildAfterParent(I, d, "stmt") /\ ChildAfterRunning(I, d)

\* how far the worst pair is from being allowed (1 = boundary); 0: a parent is unplaced
PrecMargin(I, d) ==
    LET A == {NeedAfter(I, d, e[2], "stmt") - d[e[1]].s : e \in {x \in DecidedPairs(I, d) : Placed(d, x[2])}}
        B == {I.tasks[e[2]].fin - d[e[1]].s : e \in RunningPairs(I, d)}
        V == {m \in A \cup B : m > 0}
    IN  IF ~ParentsPlaced(I, d) \/ V = {} THEN 0 ELSE SetMin(V)

-----------------------------------------------------------------------------
(* C12, statement level *)
Admit(now, I, t) == ~(I.tasks[t].deadline < now + FastestRt(I, t))

DeadlineOK(I, d) ==
    \A t \in Dom(d) : Placed(d, t) => d[t].s + Rt(I, t, d[t].k) <= I.tasks[t].deadline

Hopeless(I, d) == {t \in Dom(d) : (I.tasks[t].offered \/ Decided(d, t)) /\ ~Admit(I.now, I, t)}

HopelessCancelled(I, d) == \A t \in Hopeless(I, d) : Cancelled(d, t)
\* ... and only those: a task that can still finish with its fastest strategy starting now
\* (deadline = now + runtime included) is not dropped by the admission test
OnlyHopelessCancelled(I, d) == \A t \in Dom(d) : Cancelled(d, t) => ~Admit(I.now, I, t)
\* "never placed: it is answered with a cancellation" - one answer never does both for a task
NotCancelledAndPlaced(I, d) == \A t \in Dom(d) : ~(Placed(d, t) /\ d[t].c)
HopelessNotPlaced(I, d) == \A t \in Hopeless(I, d) : ~Placed(d, t)

HopelessHandled(I, d) ==
    I.enforce =>
        /\ HopelessNotPlaced(I, d)
        /\ I.policy \in CancelPolicies => (HopelessCancelled(I, d) /\ OnlyHopelessCancelled(I, d))

DeadlineMargin(I, d) ==
    LET V == {d[t].s + Rt(I, t, d[t].k) - I.tasks[t].deadline : t \in {u \in Dom(d) : Placed(d, u)}}
        W == {m \in V : m > 0}
    IN  IF W = {} THEN 0 ELSE SetMin(W)

\* end-to-end: every task that completed did so by its deadline
CompletedOK(I) == \A t \in TaskIds(I) : I.tasks[t].state = "DONE" => I.tasks[t].fin <= I.tasks[t].deadline

-----------------------------------------------------------------------------
(* the decision space of a policy as coded (convention level)                *)
Compatible(I, t, w, k) == \A r \in ResIds(I) : Dem(I, t, k)[r] <= I.workers[w][r]
\* some strategy of the task fits some worker of the cluster at all (an empty one)
FitsSomewhere(I, t) == \E w \in 1..Len(I.workers) : \E k \in StratIds(I, t) : Compatible(I, t, w, k)
MaxRt(I) == SetMax({SlowestRt(I, t) : t \in TaskIds(I)})

\* the points now + i * grid up to `last`
GridPoints(I, last) == {I.now + i * I.grid : i \in 0..((last - I.now) \div I.grid)}
StartDom(I, t) ==
    {s \in GridPoints(I, I.horizon) : s >= Max2(I.now + Conv(I.policy).startLB, I.tasks[t].release)}

Options(I, t) ==
    IF ~I.tasks[t].dec THEN {None}
    ELSE (IF I.tasks[t].must THEN {} ELSE {Unplaced})
         \cup {Place(w, s, k) : w \in {v \in 1..Len(I.workers) : \E k \in StratIds(I, t) : Compatible(I, t, v, k)},
                                s \in StartDom(I, t),
                                \* batching: a SCHEDULED batch is re-planned with the strategy it was planned with
                                k \in (IF I.batching /\ I.tasks[t].must THEN {I.tasks[t].cur.k} ELSE StratIds(I, t))}

OptionOK(I, t, o) == o.kind = "place" => Compatible(I, t, o.w, o.k)

\* occupancy of a worker as the policy's model sees it: decided placed tasks and RUNNING ones
Occ(I, d) ==
    {t \in Dom(d) : Placed(d, t) \/ (~Decided(d, t) /\ I.tasks[t].state = "RUN" /\ Conv(I.policy).runRt # "none")}
OW(I, d, t) == IF Placed(d, t) THEN d[t].w ELSE I.tasks[t].cur.w
OS(I, d, t) == IF Placed(d, t) THEN d[t].s ELSE I.now
OStrat(I, d, t) == IF Placed(d, t) THEN d[t].k ELSE I.tasks[t].cur.k
ORt(I, d, t) ==
    IF Placed(d, t) THEN (IF I.policy = "Z3" THEN SlowestRt(I, t) ELSE Rt(I, t, d[t].k))
    ELSE IF Conv(I.policy).runRt = "full" THEN Rt(I, t, I.tasks[t].cur.k) ELSE I.tasks[t].fin - I.now
OD(I, d, t, r) == Dem(I, t, OStrat(I, d, t))[r]

\* batching: tasks of one work profile placed with the same strategy of batch size > 1 on the
\* same worker at the same time are one batch: one demand, one runtime
SameBatch(I, d, u, v) ==
    /\ I.batching /\ I.tasks[u].prof # 0 /\ I.tasks[u].prof = I.tasks[v].prof
    /\ OStrat(I, d, u) = OStrat(I, d, v) /\ Bs(I, u, OStrat(I, d, u)) > 1
    /\ OW(I, d, u) = OW(I, d, v) /\ OS(I, d, u) = OS(I, d, v)
\* one representative per batch (every task that is in no batch represents itself)
OccR(I, d) ==
    IF ~I.batching THEN Occ(I, d)
    ELSE LET O == Occ(I, d) IN {t \in O : \A u \in O : SameBatch(I, d, u, t) => u >= t}

BatchGroup(I, d, t) ==
    {u \in Dom(d) : Placed(d, u) /\ I.tasks[u].prof = I.tasks[t].prof
                      /\ d[u].w = d[t].w /\ d[u].s = d[t].s /\ d[u].k = d[t].k}
BatchedTasks(I, d) == {t \in Dom(d) : Placed(d, t) /\ Bs(I, t, d[t].k) > 1}
\* a strategy of batch size b runs exactly b tasks of the profile together (a prefix of a plan: at most b)
BatchPartial(I, d) ==
    I.batching => \A t \in BatchedTasks(I, d) :
        I.tasks[t].prof # 0 /\ Cardinality(BatchGroup(I, d, t)) <= Bs(I, t, d[t].k)
BatchComplete(I, d) ==
    I.batching => \A t \in BatchedTasks(I, d) : Cardinality(BatchGroup(I, d, t)) = Bs(I, t, d[t].k)

Conflict(I, d, u, v) ==
    LET sep == Conv(I.policy).sep
    IN  ~(OS(I, d, u) >= OS(I, d, v) + ORt(I, d, v) + sep \/ OS(I, d, v) >= OS(I, d, u) + ORt(I, d, u) + sep)

\* ILP / Z3: per task, its demand plus that of every non-dependent task on the
\* same worker whose occupancy conflicts with it
CapPairwise(I, d) ==
    LET O == OccR(I, d)
    IN  \A u \in O :
           LET S == {v \in O \ {u} : OW(I, d, v) = OW(I, d, u) /\ ~Dependent(I, u, v) /\ Conflict(I, d, u, v)}
           IN  \A r \in ResIds(I) :
                  OD(I, d, u, r) + SumOver(S, [v \in S |-> OD(I, d, v, r)]) <= I.workers[OW(I, d, u)][r]

\* TetriSched: per worker and slot of the grid, start <= slot < start + rt.  The load of a worker only
\* grows at a start point of an occupancy (a grid point: placed tasks start on the grid, RUNNING ones
\* count from now), so the slots that have to be looked at are the start points.
CapSlots(I, d) ==
    LET O == OccR(I, d)
        slots == {OS(I, d, u) : u \in O}
    IN  \A w \in 1..Len(I.workers) : \A tau \in slots :
           LET S == {u \in O : OW(I, d, u) = w /\ OS(I, d, u) <= tau /\ tau < OS(I, d, u) + ORt(I, d, u)}
           IN  \A r \in ResIds(I) : SumOver(S, [u \in S |-> OD(I, d, u, r)]) <= I.workers[w][r]

\* Z3 sees the resources held by RUNNING tasks as unavailable for good
CapZ3(I, d) ==
    LET held == [w \in 1..Len(I.workers) |-> [r \in ResIds(I) |->
                    LET R == {t \in TaskIds(I) : I.tasks[t].state = "RUN" /\ I.tasks[t].cur.w = w}
                    IN  SumOver(R, [t \in R |-> Dem(I, t, I.tasks[t].cur.k)[r]])]]
        I2 == [I EXCEPT !.workers = Tup([w \in 1..Len(I.workers) |->
                                            Tup([r \in ResIds(I) |-> Max2(0, I.workers[w][r] - held[w][r])])])]
    IN  CapPairwise(I2, d)

CapacityOK(I, d) ==
    CASE I.policy \in {"ILP", "ILP_RTG"} -> CapPairwise(I, d)
      [] I.policy \in {"TSG", "TSC"}     -> CapSlots(I, d)
      [] I.policy = "Z3"                 -> CapZ3(I, d)
      [] OTHER                           -> TRUE

\* ILP / TetriSched-Gurobi count *all* parents of the graph in "all parents placed":
\* a child with one parent in the model and another outside it (COMPLETED) cannot be placed
InModel(I, d, p) == Decided(d, p) \/ (I.tasks[p].state = "RUN" /\ Conv(I.policy).runRt # "none")
AllParentsInModel(I, d) ==
    I.policy \in {"ILP", "ILP_RTG", "TSG"} =>
        \A c \in Dom(d) : Placed(d, c) =>
            ((\E p \in Parents(I, c) : InModel(I, d, p)) => (\A p \in Parents(I, c) : InModel(I, d, p)))

\* the constraint a RUNNING parent puts on its children in the policy's model
ConvAfterRunning(I, d) ==
    LET c == Conv(I.policy)
    IN  c.runRt # "none" =>
          \A e \in {x \in Dom(d) \X Dom(d) : Placed(d, x[1]) /\ x[2] \in Parents(I, x[1]) /\ ~Decided(d, x[2])
                                              /\ I.tasks[x[2]].state = "RUN"} :
             d[e[1]].s >= I.now + (IF c.runRt = "full" /\ I.policy \in {"ILP", "ILP_RTG"}
                                   THEN Rt(I, e[2], I.tasks[e[2]].cur.k)
                                   ELSE I.tasks[e[2]].fin - I.now) + c.runGap

ConvDeadline(I, d) ==
    I.enforce => \A t \in Dom(d) : (Placed(d, t) /\ I.tasks[t].dlenf) => d[t].s + Rt(I, t, d[t].k) <= I.tasks[t].deadline

MustPlaced(I, d) == \A t \in Dom(d) : I.tasks[t].must => Placed(d, t)

\* every rule of the decision space except the named one
OtherRules(rule, I, d) ==
    /\ \A t \in Dom(d) : OptionOK(I, t, d[t])
    /\ MustPlaced(I, d)
    /\ BatchPartial(I, d)
    /\ CapacityOK(I, d)
    /\ AllParentsInModel(I, d)
    /\ rule # "precedence" =>
          /\ I.policy \in DagPolicies => (ParentsPlaced(I, d) /\ ChildAfterParent(I, d, "conv"))
          /\ ConvAfterRunning(I, d)
    /\ rule # "deadline" => ConvDeadline(I, d)

Breaks(rule, I, d) ==
    CASE rule = "precedence" -> ~PrecedenceOK(I, d)
      [] rule = "deadline"   -> ~DeadlineOK(I, d)

Margin(rule, I, d) == IF rule = "precedence" THEN PrecMargin(I, d) ELSE DeadlineMargin(I, d)

\* PlansViolatingOnly(rule): the complete plans of instance I inside its horizon that
\* satisfy every rule of the policy's decision space except `rule`, which they break
IsViolatingOnly(rule, I, d) ==
    Len(d) = Len(I.tasks) /\ OtherRules(rule, I, d) /\ BatchComplete(I, d) /\ Breaks(rule, I, d)
PlansViolatingOnly(rule, I) ==
    {d \in [1..Len(I.tasks) -> UNION {Options(I, t) : t \in TaskIds(I)}] :
        (\A t \in TaskIds(I) : d[t] \in Options(I, t)) /\ IsViolatingOnly(rule, I, Tup(d))}

-----------------------------------------------------------------------------
(* vacuity counters (TLC registers, single worker) *)
\* (child, parent) pairs both decided by this invocation
BothDecided(I, d) == {<<c, p>> \in Dom(d) \X Dom(d) : Decided(d, c) /\ p \in Parents(I, c) /\ Decided(d, p)}
\* offered at an earlier invocation already (released before this one) and still waiting
Waited(I, t) == I.tasks[t].state = "REL" /\ I.tasks[t].release >= 0 /\ I.tasks[t].release < I.now
Bump(r, cond) == IF cond THEN TLCSet(r, TLCGet(r) + 1) ELSE TRUE
NStats == 37
StatsLine == PrintT("@@stats " \o ToString([r \in 1..NStats |-> TLCGet(r)]))

Stats(I, d) ==
    /\ Bump(1, TRUE)
    /\ Bump(2, \E e \in DecidedPairs(I, d) : Placed(d, e[2]))                       \* precedence exercised
    /\ Bump(3, \E e \in DecidedPairs(I, d) : Placed(d, e[2]) /\ d[e[1]].s = NeedAfter(I, d, e[2], "conv"))  \* tight in the policy's convention
    /\ Bump(4, RunningPairs(I, d) # {})
    /\ Bump(5, \E t \in Dom(d) : d[t].kind = "unplaced" /\ \E c \in Dom(d) : t \in Parents(I, c))  \* an unplaced parent
    /\ Bump(6, Hopeless(I, d) # {})
    /\ Bump(7, \E t \in Dom(d) : d[t].kind = "cancel")
    /\ Bump(8, \E t \in Dom(d) : Placed(d, t) /\ d[t].s + Rt(I, t, d[t].k) = I.tasks[t].deadline)  \* finishes exactly at the deadline
    /\ Bump(9, \E t \in Dom(d) : Placed(d, t) /\ Rt(I, t, d[t].k) # FastestRt(I, t))               \* slower strategy chosen
    /\ Bump(10, \E t \in Dom(d) : (I.tasks[t].offered \/ Decided(d, t)) /\ I.tasks[t].deadline = I.now + FastestRt(I, t))  \* exactly tight
    /\ Bump(11, \E t \in Dom(d) : Placed(d, t))
    /\ Bump(12, \E t \in Dom(d) : Placed(d, t) /\ d[t].w > 1)
    \* later invocations of one scheduler object; SCHEDULED tasks planned again; batches
    /\ Bump(13, \E t \in Dom(d) : I.tasks[t].state = "SCHED" /\ Placed(d, t))
    /\ Bump(14, \E t \in Dom(d) : I.tasks[t].state = "SCHED" /\ Placed(d, t)
                                   /\ <<d[t].w, d[t].s, d[t].k>> # <<I.tasks[t].cur.w, I.tasks[t].cur.s, I.tasks[t].cur.k>>)
    /\ Bump(15, BatchedTasks(I, d) # {})
    /\ Bump(16, \E t \in BatchedTasks(I, d) : \E u \in BatchGroup(I, d, t) : I.tasks[u].deadline # I.tasks[t].deadline)
    /\ Bump(17, I.step > 1)
    /\ Bump(18, \E t \in Dom(d) : I.tasks[t].state = "SCHED" /\ Placed(d, t) /\ d[t].s + Rt(I, t, d[t].k) = I.tasks[t].deadline)
    \* the boundary cases again, at a later invocation
    /\ Bump(19, I.step > 1 /\ Hopeless(I, d) # {})
    /\ Bump(20, I.step > 1 /\ \E t \in Dom(d) : (I.tasks[t].offered \/ Decided(d, t)) /\ I.tasks[t].deadline = I.now + FastestRt(I, t))
    /\ Bump(21, I.step > 1 /\ \E t \in Dom(d) : Placed(d, t) /\ d[t].s + Rt(I, t, d[t].k) = I.tasks[t].deadline)
    \* co-offered predecessors that cannot be placed (no worker fits them / hopeless), what became of their children
    /\ Bump(22, \E e \in BothDecided(I, d) : ~FitsSomewhere(I, e[2]))
    /\ Bump(23, \E e \in BothDecided(I, d) : I.enforce /\ ~Admit(I.now, I, e[2]))
    /\ Bump(24, \E e \in BothDecided(I, d) : ~Placed(d, e[2]) /\ FitsSomewhere(I, e[1]))
    /\ Bump(25, \E e \in BothDecided(I, d) : ~Placed(d, e[2]) /\ ~Placed(d, e[1]))
    /\ Bump(26, ~ParentsPlaced(I, d))
    /\ Bump(27, \E e \in BothDecided(I, d) : \E f \in BothDecided(I, d) :
                    e[1] = f[1] /\ Placed(d, e[2]) /\ ~Placed(d, f[2]))
    /\ Bump(28, \E t \in Dom(d) : I.tasks[t].state = "RUN" /\ ~Decided(d, t)
                                   /\ \A u \in Dom(d) : Decided(d, u) => ~Dependent(I, t, u))
    /\ Bump(29, Len(I.workers[1]) > 1)
    \* requests that waited over several invocations (Clockwork queues, greedy policies)
    /\ Bump(30, I.step > 1 /\ \E t \in Dom(d) : Placed(d, t) /\ Waited(I, t))
    /\ Bump(31, I.step > 1 /\ \E t \in Dom(d) : Cancelled(d, t) /\ Waited(I, t))
    /\ Bump(32, I.step > 1 /\ \E t \in Dom(d) : Placed(d, t) /\ Waited(I, t) /\ Bs(I, t, d[t].k) > 1)
    /\ Bump(33, \E t \in Dom(d) : (I.tasks[t].offered \/ Decided(d, t)) /\ Len(I.tasks[t].strats) >= 3)
    /\ Bump(34, ~NotCancelledAndPlaced(I, d))
    /\ Bump(35, I.step >= 3)
    /\ Bump(36, I.step > 1 /\ \E t \in Dom(d) : Placed(d, t) /\ Rt(I, t, d[t].k) # FastestRt(I, t))
    \* still admitted, but too late for its slowest strategy: the strategy matters
    /\ Bump(37, \E t \in Dom(d) : (I.tasks[t].offered \/ Decided(d, t)) /\ Admit(I.now, I, t)
                                   /\ I.tasks[t].deadline < I.now + SlowestRt(I, t))

-----------------------------------------------------------------------------
(* T: call records.  Every failing clause of every record is printed          *)
(* ("@@ id clause"); the invariant itself always holds.                      *)
Clauses == {"harness.wf",
            "C11.parents_placed", "C11.child_after_parent", "C11.child_after_running_parent",
            "C12.plan_meets_deadline", "C12.hopeless_cancelled", "C12.hopeless_not_placed", "C12.cancelled_and_placed",
            "C12.completed_by_deadline",
            "conv.child_after_parent", "conv.child_after_running_parent"}

Holds(c, r) ==
    LET I == r.inst  d == r.dec
    IN  CASE c = "harness.wf" -> WellFormedInst(I) /\ WellFormedDec(I, d)
          [] c = "C11.parents_placed" -> I.policy \in DagPolicies => ParentsPlaced(I, d)
          [] c = "C11.child_after_parent" -> I.policy \in DagPolicies => ChildAfterParent(I, d, "stmt")
          [] c = "C11.child_after_running_parent" -> I.policy \in DagPolicies => ChildAfterRunning(I, d)
          [] c = "C12.plan_meets_deadline" ->
                (I.enforce /\ I.policy \in DeadlinePolicies) => DeadlineOK(I, d)
          [] c = "C12.hopeless_cancelled" ->
                (I.enforce /\ I.policy \in CancelPolicies) => (HopelessCancelled(I, d) /\ OnlyHopelessCancelled(I, d))
          [] c = "C12.hopeless_not_placed" ->
                (I.enforce /\ I.policy \in CancelPolicies \cup UnplacedPolicies) => HopelessNotPlaced(I, d)
          [] c = "C12.cancelled_and_placed" ->
                (I.enforce /\ I.policy \in CancelPolicies \cup UnplacedPolicies) => NotCancelledAndPlaced(I, d)
          [] c = "C12.completed_by_deadline" -> r.src = "e2e" => CompletedOK(I)
          [] c = "conv.child_after_parent" -> I.policy \in DagPolicies => ChildAfterParent(I, d, "conv")
          [] c = "conv.child_after_running_parent" -> I.policy \in DagPolicies => ConvAfterRunning(I, d)

RecInit == idx \in 1..NRecords /\ plan = <<>>
NoNext  == idx < 0 /\ UNCHANGED vars

RecChecked ==
    LET r  == TheRecords[idx]
        wf == Holds("harness.wf", r)
        F  == IF wf THEN {c \in Clauses : ~Holds(c, r)} ELSE {"harness.wf"}
    IN  /\ \A c \in F : PrintT("@@ " \o ToString(r.id) \o " " \o c)
        /\ IF wf THEN Stats(r.inst, r.dec) ELSE TRUE

-----------------------------------------------------------------------------
(* R: enumeration of PlansViolatingOnly(Rule, Insts[idx]) by extension of      *)
(* partial plans task by task (every rule is universal over the decided       *)
(* tasks, so a prefix that breaks one of OtherRules has no completion).       *)
EnumInit == idx \in 1..NInsts /\ plan = <<>>

EnumNext ==
    LET I == TheInsts[idx]
        t == Len(plan) + 1
    IN  /\ t <= Len(I.tasks)
        /\ \E o \in Options(I, t) :
              /\ OtherRules(Rule, I, Append(plan, o))
              /\ plan' = Append(plan, o)
        /\ UNCHANGED idx

Compact(d) == Tup([t \in 1..Len(d) |->
                    <<(CASE d[t].kind = "place" -> 1 [] d[t].kind = "unplaced" -> 0 [] OTHER -> -1), d[t].w, d[t].s, d[t].k>>])

\* always true; prints every member of PlansViolatingOnly once (plans are distinct states)
EnumEmit ==
    LET I == TheInsts[idx]
    IN  (Len(plan) = Len(I.tasks) /\ BatchComplete(I, plan) /\ Breaks(Rule, I, plan)) =>
            /\ PrintT("@@plan " \o ToString(<<idx, Margin(Rule, I, plan), Compact(plan)>>))
            /\ Bump(1, TRUE)

\* sanity of the incremental enumeration against the set definition (small instances only).
\* It has a parameter on purpose: TLC evaluates every constant-level definition WITHOUT parameters
\* when it starts, i.e. it would compute the brute-force sets of every enumeration run.
EnumAgrees(n) ==
    \A i \in 1..n :
        PrintT("@@count " \o ToString(<<i, Cardinality(PlansViolatingOnly(Rule, TheInsts[i]))>>))
=============================================================================
