"""C18 — the scheduling frontier.  TaskGraph.get_schedulable_tasks is transcribed in Simulator.tla
(`Schedulable`); every real call made during recorded simulations (plus monotonicity probes with a
larger lookahead / release_taskgraphs on the same state) must satisfy the contract clauses and, when
no random branch prediction is involved, equal the transcription; the clauses and monotonicity are
model-checked on every state of SimMC."""
from . import simmc, simprops
from .common import CheckResult


def run(tier):
    res = CheckResult("C18", tier)
    simmc.check("C18", tier, res)
    simprops.check("C18", tier, res)
    res.assumptions += simprops.ASSUMPTIONS
    return res
