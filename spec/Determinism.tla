---------------------------- MODULE Determinism ----------------------------
(* C09 - runs are reproducible from the random seed.                        *)
(*                                                                          *)
(* A lock-step comparator over pairs of traces A, B recorded from two        *)
(* fresh `python main.py --flagfile F --random_seed N` processes run on the  *)
(* same (world, flags, seed) - only PYTHONHASHSEED (and the wall clock, the  *)
(* process id, the output file names) differ.  The world is given in any of  *)
(* the workload modes of main.py (YAML / JSON workload description, Alibaba  *)
(* trace replay) or through a loader of /repo/data that main.py constructs   *)
(* without running it (Pylot profile, Clockwork bursty generator): the row   *)
(* vocabulary is the simulator's and is the same in every mode.  A trace is  *)
(* the complete CSV file of a run, one record per row:                       *)
(*     [ty |-> row type, t |-> simulated time of the row (-1 if none),       *)
(*      f  |-> <<all comma separated columns of the row, as strings>>]       *)
(* (`input_flag,<name>,<value>` rows have ty = "input_flag", f of length 3;  *)
(* the harness appends one PROCESS_EXIT row: how the process ended).         *)
(*                                                                          *)
(* The property is a 2-safety property:  for every position k the two rows   *)
(* are equal on the observation function Obs, and the traces have the same   *)
(* length (SameChoices).  Obs hides exactly the wall-clock derived columns:  *)
(*   - the last column of SCHEDULER_FINISHED (`true_runtime`, measured with  *)
(*     time.time() around the scheduler call),                               *)
(*   - the value of the input_flag rows that name the output files of the    *)
(*     run (MaskedFlags, plus per pair `mask`: the negative control compares *)
(*     runs with different --random_seed and hides that flag's echo).        *)
(* Task / graph / worker-pool / resource ids, every simulated time, every    *)
(* placement, the order of rows and the summary row ARE observable.          *)
(*                                                                          *)
(* The state machine advances a position over both row sequences together    *)
(* (one row per step).  `d` is the divergence found by the step that led to  *)
(* the current state; C09_SameChoices == (d = NoDiv) is the invariant.  A    *)
(* divergence is classified (clause ids):                                    *)
(*   C09.length     one trace ends, the other goes on                        *)
(*   C09.order      the next rows are a permutation of each other (same      *)
(*                  multiset of observable rows at that simulated time)      *)
(*   C09.ids        same event, only generated-id columns differ             *)
(*   C09.times      same event with different time columns, or different     *)
(*                  events at different simulated times, or different events *)
(*                  one of which happens at another time in the other run    *)
(*   C09.placement  same event, placement columns differ; or different       *)
(*                  placement events at the same time                        *)
(*   C09.summary    the SIMULATOR_END counters differ                        *)
(*   C09.rows       anything else                                            *)
(* After a C09.order divergence the comparator resynchronises behind the     *)
(* permuted block, so that an independent later divergence of the same pair  *)
(* is found as well (a permuted block is reported once per pair and kind =   *)
(* set of row types in the block; all of them are counted in `ord.n`);       *)
(* every other divergence ends the comparison of the pair (the runs are no   *)
(* longer comparable row by row).                                            *)
(*                                                                          *)
(* Output (one TLC run per batch of pairs, run with -continue):              *)
(*   <<"@@D", pair id, k, clause, hint, A[k].f, B[k].f>>   per divergence    *)
(*   <<"@@E", pair id, rows compared, Len(A), Len(B), ord.n, last clause,    *)
(*     SameChoices(A, B), RunShape(A), RunShape(B)>>       per pair, at end  *)
(* RunShape says how far a run got (graphs released, placements, finished    *)
(* tasks, SIMULATOR_END rows): a workload mode whose runs did not simulate   *)
(* anything is not counted as exercised by the harness.                      *)
EXTENDS Integers, Sequences, FiniteSets, TLC, Json

CONSTANTS PairsFile,     \* JSON file: sequence of [id, mask, a, b]
          MaskedFlags,   \* flag names whose echoed value is not observable
          Window         \* max. length of a permuted block (C09.order)

Pairs == JsonDeserialize(PairsFile)

VARIABLES p,      \* which pair of the batch
          i,      \* number of positions compared so far
          d,      \* divergence found by the last step ([c, k]; NoDiv if none)
          ord,    \* permuted blocks skipped so far in this pair: [n: how many, kinds: reported kinds]
          fin     \* the pair has been reported
vars == <<p, i, d, ord, fin>>

NoDiv == [c |-> "", k |-> 0]

A == Pairs[p].a
B == Pairs[p].b
LenA == Len(A)
LenB == Len(B)
Min2(x, y) == IF x <= y THEN x ELSE y
Max2(x, y) == IF x >= y THEN x ELSE y

-----------------------------------------------------------------------------
(* Row schemas: which columns of a row type are simulated times, generated  *)
(* ids, placement decisions, summary counters, and which identify the event  *)
(* (name).  `rest` says what the (name, id, quantity) triples after the      *)
(* fixed columns are: "res_id" = resources of a pool (id generated),         *)
(* "res_req" = requirements of a task, "res_alloc" = allocated resources.    *)

Sch(cols, time, id, place, sum, name, rest) ==
    [cols |-> cols, time |-> time, id |-> id, place |-> place, sum |-> sum, name |-> name, rest |-> rest]

Schema(ty) ==
    CASE ty = "input_flag" ->
            Sch(<<"input_flag", "flag", "value">>, {}, {}, {}, {}, {1, 2}, "none")
      [] ty = "WORKER_POOL" ->
            Sch(<<"time", "type", "pool_name", "pool_id">>, {1}, {4}, {}, {}, {3}, "res_id")
      [] ty = "WORKER_POOL_UTILIZATION" ->
            Sch(<<"time", "type", "pool_id", "resource_name", "allocated", "available">>, {1}, {3}, {}, {}, {4}, "none")
      [] ty = "SIMULATOR_START" ->
            Sch(<<"time", "type">>, {1}, {}, {}, {}, {}, "none")
      [] ty = "UPDATE_WORKLOAD" ->
            Sch(<<"time", "type", "released_graphs", "released_tasks">>, {1}, {}, {}, {}, {}, "none")
      [] ty = "TASK_GRAPH_RELEASE" ->
            Sch(<<"time", "type", "release_time", "deadline", "task_graph", "num_tasks", "critical_path">>,
                {1, 3, 4}, {}, {}, {}, {5}, "none")
      [] ty = "TASK_RELEASE" ->
            Sch(<<"time", "type", "task", "timestamp", "intended_release", "release", "deadline", "task_id",
                  "task_graph", "runtime">>, {1, 5, 6, 7}, {8}, {}, {}, {3, 4, 9}, "res_req")
      [] ty = "TASK_FINISHED" ->
            Sch(<<"time", "type", "task", "timestamp", "task_graph", "completion", "deadline", "task_id">>,
                {1, 6, 7}, {8}, {}, {}, {3, 4, 5}, "none")
      [] ty = "TASK_GRAPH_FINISHED" ->
            Sch(<<"time", "type", "task_graph", "deadline", "tardiness">>, {1, 4, 5}, {}, {}, {}, {3}, "none")
      [] ty = "MISSED_DEADLINE" ->
            Sch(<<"time", "type", "task", "timestamp", "deadline", "task_id">>, {1, 5}, {6}, {}, {}, {3, 4}, "none")
      [] ty = "MISSED_TASK_GRAPH_DEADLINE" ->
            Sch(<<"time", "type", "task_graph", "deadline">>, {1, 4}, {}, {}, {}, {3}, "none")
      [] ty = "TASK_CANCEL" ->
            Sch(<<"time", "type", "task", "timestamp", "task_id", "task_graph", "runtime">>,
                {1}, {5}, {}, {}, {3, 4, 6}, "none")
      [] ty = "TASK_SKIP" ->
            Sch(<<"time", "type", "task", "task_graph", "timestamp", "task_id">>, {1}, {6}, {}, {}, {3, 4, 5}, "none")
      [] ty = "TASK_SCHEDULED" ->
            Sch(<<"time", "type", "task", "task_graph", "timestamp", "task_id", "deadline", "placement_time",
                  "pool_id", "strategy_runtime">>, {1, 7}, {6}, {8, 9, 10}, {}, {3, 4, 5}, "none")
      [] ty = "TASK_PLACEMENT" ->
            Sch(<<"time", "type", "task", "task_graph", "timestamp", "task_id", "pool_id", "strategy_runtime">>,
                {1}, {6}, {7, 8}, {}, {3, 4, 5}, "res_alloc")
      [] ty \in {"TASK_NOT_READY", "WORKER_NOT_READY"} ->
            Sch(<<"time", "type", "task", "timestamp", "task_id", "pool_id">>, {1}, {5}, {6}, {}, {3, 4}, "none")
      [] ty = "TASK_PREEMPT" ->
            Sch(<<"time", "type", "task", "timestamp", "task_id">>, {1}, {5}, {}, {}, {3, 4}, "none")
      [] ty = "TASK_MIGRATED" ->
            Sch(<<"time", "type", "task", "timestamp", "task_id", "old_pool_id", "pool_id">>,
                {1}, {5}, {6, 7}, {}, {3, 4}, "res_alloc")
      [] ty = "SCHEDULER_START" ->
            Sch(<<"time", "type", "schedulable", "placed">>, {1}, {}, {}, {}, {}, "none")
      [] ty = "SCHEDULER_FINISHED" ->
            Sch(<<"time", "type", "runtime", "placed", "unplaced", "true_runtime">>, {1}, {}, {}, {}, {}, "none")
      [] ty = "SIMULATOR_END" ->
            Sch(<<"time", "type", "finished_tasks", "cancelled_tasks", "missed_task_deadlines",
                  "finished_graphs", "cancelled_graphs", "missed_graph_deadlines">>, {1}, {}, {}, {3, 4, 5, 6, 7, 8}, {}, "none")
      [] ty = "PROCESS_EXIT" ->  \* appended by the harness: how the process ended
            Sch(<<"none", "type", "exit_class", "exception">>, {}, {}, {}, {}, {}, "none")
      [] OTHER -> Sch(<<"time", "type">>, {1}, {}, {}, {}, {}, "none")

PlacementTypes == {"TASK_SCHEDULED", "TASK_PLACEMENT", "TASK_SKIP", "TASK_NOT_READY", "WORKER_NOT_READY",
                   "TASK_MIGRATED", "TASK_PREEMPT"}

Cols(r)     == DOMAIN r.f
Fixed(r)    == Len(Schema(r.ty).cols)
RestCols(r) == {j \in Cols(r) : j > Fixed(r)}
TimeCols(r) == Schema(r.ty).time \cap Cols(r)
IdCols(r)   == (Schema(r.ty).id \cap Cols(r)) \cup
               (IF Schema(r.ty).rest = "res_id" THEN {j \in RestCols(r) : (j - Fixed(r)) % 3 = 2} ELSE {})
PlaceCols(r) == (Schema(r.ty).place \cap Cols(r)) \cup
                (IF Schema(r.ty).rest = "res_alloc" THEN RestCols(r) ELSE {})
SumCols(r)  == Schema(r.ty).sum \cap Cols(r)
NameCols(r) == Schema(r.ty).name \cap Cols(r)
ColName(r, j) == IF j <= Fixed(r) THEN Schema(r.ty).cols[j]
                 ELSE "res." \o <<"q", "name", "id">>[((j - Fixed(r)) % 3) + 1]

-----------------------------------------------------------------------------
(* The observation function                                                *)

MaskOf(pr) == MaskedFlags \cup {pr.mask[j] : j \in DOMAIN pr.mask}

MaskedCols(pr, r) ==
    IF r.ty = "SCHEDULER_FINISHED" THEN {6} \cap Cols(r)
    ELSE IF r.ty = "input_flag" /\ Len(r.f) >= 3 /\ r.f[2] \in MaskOf(pr) THEN {3}
    ELSE {}

ObsP(pr, r) == [ty |-> r.ty, f |-> [j \in Cols(r) |-> IF j \in MaskedCols(pr, r) THEN "#" ELSE r.f[j]]]
Obs(r) == ObsP(Pairs[p], r)

\* the property, declaratively (printed per pair as a cross-check of the state machine)
SameChoicesP(pr) == /\ Len(pr.a) = Len(pr.b)
                    /\ \A k \in 1..Len(pr.a) : ObsP(pr, pr.a[k]) = ObsP(pr, pr.b[k])

Same(k) == k <= LenA /\ k <= LenB /\ Obs(A[k]) = Obs(B[k])

-----------------------------------------------------------------------------
(* Classification of the divergence at position k                           *)

\* smallest e > k such that A[k..e] and B[k..e] carry the same simulated time and the same
\* multiset of observable rows; 0 if there is none within the window
RECURSIVE OrdEnd(_, _)
OrdEnd(k, e) ==
    IF e > Min2(Min2(LenA, LenB), k + Window - 1) THEN 0
    ELSE IF A[e].t # A[k].t \/ B[e].t # A[k].t THEN 0
    ELSE IF \A x \in k..e : Cardinality({y \in k..e : Obs(A[y]) = Obs(A[x])})
                          = Cardinality({y \in k..e : Obs(B[y]) = Obs(A[x])})
         THEN e
    ELSE OrdEnd(k, e + 1)

OrderEnd(k) == IF k > LenA \/ k > LenB \/ A[k].t # B[k].t THEN 0 ELSE OrdEnd(k, k + 1)

SameEvent(a, b) == /\ a.ty = b.ty
                   /\ Len(a.f) = Len(b.f)
                   /\ \A j \in NameCols(a) : a.f[j] = b.f[j]

DiffCols(a, b) == {j \in Cols(a) : Obs(a).f[j] # Obs(b).f[j]}

\* row types whose name columns identify one event of a run
UniqueEventTypes == {"TASK_GRAPH_RELEASE", "TASK_RELEASE", "TASK_FINISHED", "TASK_GRAPH_FINISHED", "TASK_CANCEL",
                     "MISSED_DEADLINE", "MISSED_TASK_GRAPH_DEADLINE"}
\* the event of row x happens in the other run Y as well (at or after position k), at other simulated times
ShiftedIn(x, Y, k) == /\ x.ty \in UniqueEventTypes
                      /\ \E j \in k..Len(Y) : SameEvent(x, Y[j]) /\ DiffCols(x, Y[j]) \cap TimeCols(x) # {}

Classify(k) ==
    IF k > LenA \/ k > LenB THEN "C09.length"
    ELSE IF OrderEnd(k) # 0 THEN "C09.order"
    ELSE LET a == A[k]
             b == B[k]
         IN  IF SameEvent(a, b)
             THEN LET D == DiffCols(a, b) IN
                  IF D \cap TimeCols(a) # {} THEN "C09.times"
                  ELSE IF D # {} /\ D \subseteq SumCols(a) THEN "C09.summary"
                  ELSE IF D \cap PlaceCols(a) # {} THEN "C09.placement"
                  ELSE IF D # {} /\ D \subseteq IdCols(a) THEN "C09.ids"
                  ELSE "C09.rows"
             ELSE IF a.t # b.t THEN "C09.times"
             ELSE IF ShiftedIn(a, B, k) \/ ShiftedIn(b, A, k) THEN "C09.times"
             ELSE IF a.ty \in PlacementTypes /\ b.ty \in PlacementTypes THEN "C09.placement"
             ELSE "C09.rows"

BlockKind(k) == {A[j].ty : j \in k..OrderEnd(k)}

\* what the harness builds the (seed independent) finding key from
Hint(k, c) ==
    IF c = "C09.length" THEN <<"shorter", IF k > LenA THEN "A" ELSE "B", IF k > LenA THEN B[k].ty ELSE A[k].ty>>
    ELSE IF c = "C09.order" THEN <<"block", BlockKind(k)>>
    ELSE IF SameEvent(A[k], B[k]) THEN <<"cols", A[k].ty, {ColName(A[k], j) : j \in DiffCols(A[k], B[k])}>>
    ELSE IF A[k].t # B[k].t THEN <<"lead", IF A[k].t < B[k].t THEN A[k].ty ELSE B[k].ty,
                                           IF A[k].t < B[k].t THEN B[k].ty ELSE A[k].ty>>
    ELSE IF ShiftedIn(A[k], B, k) THEN <<"shifted", A[k].ty>>
    ELSE IF ShiftedIn(B[k], A, k) THEN <<"shifted", B[k].ty>>
    ELSE <<"events", A[k].ty, B[k].ty>>

RowF(X, k) == IF k <= Len(X) THEN X[k].f ELSE <<>>

\* how far the run with trace X got: <<graphs released, placements, finished tasks, SIMULATOR_END rows>>
CountTy(X, ty) == Cardinality({j \in 1..Len(X) : X[j].ty = ty})
RunShape(X) == <<CountTy(X, "TASK_GRAPH_RELEASE"), CountTy(X, "TASK_PLACEMENT"), CountTy(X, "TASK_FINISHED"),
                 CountTy(X, "SIMULATOR_END")>>

-----------------------------------------------------------------------------
(* The lock-step state machine                                              *)

Terminal(x) == x.c \notin {"", "C09.order"}

Init == /\ p \in 1..Len(Pairs)
        /\ i = 0
        /\ d = NoDiv
        /\ ord = [n |-> 0, kinds |-> {}]
        /\ fin = FALSE

Step ==
    /\ ~fin /\ ~Terminal(d)
    /\ i < Max2(LenA, LenB)
    /\ LET k == i + 1 IN
       IF Same(k)
       THEN /\ i' = k
            /\ d' = NoDiv
            /\ ord' = ord
       ELSE LET c     == Classify(k)
                kind  == IF c = "C09.order" THEN BlockKind(k) ELSE {}
                quiet == c = "C09.order" /\ kind \in ord.kinds
            IN  /\ i' = IF c = "C09.order" THEN OrderEnd(k) ELSE k
                /\ ord' = IF c = "C09.order" THEN [n |-> ord.n + 1, kinds |-> ord.kinds \cup {kind}] ELSE ord
                /\ d' = IF quiet THEN NoDiv ELSE [c |-> c, k |-> k]
                /\ IF quiet THEN TRUE
                   ELSE PrintT(<<"@@D", Pairs[p].id, k, c, Hint(k, c), RowF(A, k), RowF(B, k)>>)
    /\ UNCHANGED <<p, fin>>

\* no comparison is made by this step: it reports the pair
Finish ==
    /\ ~fin
    /\ Terminal(d) \/ i >= Max2(LenA, LenB)
    /\ fin' = TRUE
    /\ d' = NoDiv
    /\ PrintT(<<"@@E", Pairs[p].id, i, LenA, LenB, ord.n, d.c, SameChoicesP(Pairs[p]), RunShape(A), RunShape(B)>>)
    /\ UNCHANGED <<p, i, ord>>

Next == Step \/ Finish

Spec == Init /\ [][Next]_vars

-----------------------------------------------------------------------------
TypeOK == /\ p \in 1..Len(Pairs)
          /\ i \in 0..Max2(LenA, LenB)
          /\ ord.n \in Nat
          /\ fin \in BOOLEAN

\* at every position the two runs made the same observable choices (and neither run has
\* rows the other lacks): the step that led here found no divergence
C09_SameChoices == d = NoDiv
=============================================================================
