"""A type-correct but otherwise arbitrary scheduling policy used to exercise the
simulator-side properties (C01-C08): it names full pools, plans into the future, leaves
tasks unplaced, re-plans and cancels.  It never places into the past and never answers
for a task that has started."""
from __future__ import annotations

import random

from .common import import_repo

import_repo()
from schedulers import BaseScheduler  # noqa: E402
from utils import EventTime  # noqa: E402
from workload import BranchPredictionPolicy, Placement, Placements, TaskState  # noqa: E402


class HostileScheduler(BaseScheduler):
    def __init__(self, seed=0, runtime=EventTime.zero(), lookahead=EventTime.zero(), retract_schedules=False,
                 release_taskgraphs=False, cancel_rate=0.1, cancel_cond_children=False, batching=False, preemptive=False, _flags=None):
        super().__init__(
            preemptive=preemptive,
            runtime=runtime,
            lookahead=lookahead,
            enforce_deadlines=False,
            policy=BranchPredictionPolicy.ALL,
            retract_schedules=retract_schedules,
            release_taskgraphs=release_taskgraphs,
            _flags=_flags,
        )
        self._rnd = random.Random(seed * 7919 + 13)
        self._cancel_rate = cancel_rate
        self._cancel_cond_children = cancel_cond_children
        self._batching = batching
        self._batches = {}  # (profile id, strategy index) -> BatchStrategy objects handed out so far

    def schedule(self, sim_time, workload, worker_pools):
        tasks = workload.get_schedulable_tasks(
            sim_time,
            self.lookahead,
            self.preemptive,
            self.retract_schedules,
            worker_pools,
            self.policy,
            self.branch_prediction_accuracy,
            self.release_taskgraphs,
        )
        r = self._rnd
        pools = list(worker_pools.worker_pools)
        out = []
        seen = set()
        for t in tasks:
            if t.id in seen:
                continue
            if t.state == TaskState.RUNNING and self.preemptive:
                # preemption / migration decisions for running tasks (never for a task that finishes before the
                # answer is applied: its TASK_FINISHED would precede the TASK_PREEMPT)
                seen.add(t.id)
                if t.remaining_time <= self.runtime or r.random() < 0.6:
                    continue
                if r.random() < 0.3:
                    out.append(Placement.create_task_placement(task=t))  # preempt, never resumed by this policy
                else:
                    pool = r.choice(pools)
                    when = sim_time + self.runtime + EventTime(r.choice([0, 0, 2]), EventTime.Unit.US)
                    out.append(Placement.create_task_placement(
                        task=t, placement_time=when, worker_pool_id=pool.id,
                        execution_strategy=r.choice(list(t.available_execution_strategies))))
                continue
            if t.state not in (TaskState.VIRTUAL, TaskState.RELEASED, TaskState.SCHEDULED):
                continue
            if t.state == TaskState.SCHEDULED and t.expected_start_time <= sim_time + self.runtime:
                # the pending placement fires before this answer is applied: leave it alone
                continue
            seen.add(t.id)
            x = r.random()
            tg = workload.get_task_graph(t.task_graph)
            branch_child = any(p.conditional and not p.is_complete() for p in tg.get_parents(t))
            if branch_child and not self._cancel_cond_children and x < self._cancel_rate + 0.25:
                # cancelling / dropping a child of an undecided conditional crashes the simulator when the
                # conditional completes (known finding C05/C07): leave such tasks without an answer
                continue
            if x < self._cancel_rate and t.state != TaskState.SCHEDULED:
                out.append(Placement.create_task_cancellation(task=t))
                continue
            if x < self._cancel_rate + 0.25:
                out.append(Placement.create_task_placement(task=t))
                continue
            pool = r.choice(pools)
            strats = list(t.available_execution_strategies)
            si = r.randrange(len(strats))
            strat = strats[si]
            delay = r.choice([0, 0, 0, 1, 2, 5])
            when = sim_time + self.runtime + EventTime(delay, EventTime.Unit.US)
            if t.state == TaskState.SCHEDULED and r.random() < 0.5:
                # re-plan for the SAME time (possibly with another strategy / pool)
                when = t.expected_start_time
            if not t.release_time.is_invalid() and when < t.release_time:
                # a placement never precedes the task's KNOWN release time (C10; Task.start asserts it): tasks of
                # trace-replay graphs carry their own release times while they are still VIRTUAL
                when = t.release_time
            if self._batching and r.random() < 0.6:
                # batch placements: the same BatchStrategy object is handed to several tasks, also long
                # after its earlier members have left the worker
                from workload import BatchStrategy

                key = (t.profile.id, si)
                lst = self._batches.setdefault(key, [])
                # a batch never gets more concurrent members than its size (that is the policy's side of the contract)
                free = [b for b in lst if sum(1 for m in b[1] if m.state not in (TaskState.COMPLETED, TaskState.CANCELLED)) < b[0].batch_size]
                if not free or r.random() < 0.3:
                    lst.append((BatchStrategy(strat), []))
                    free.append(lst[-1])
                b = r.choice(free)
                b[1].append(t)
                strat = b[0]
            wid = None
            if r.random() < 0.3:
                wid = r.choice(pool.workers).id
            out.append(
                Placement.create_task_placement(
                    task=t, placement_time=when, worker_pool_id=pool.id, worker_id=wid, execution_strategy=strat
                )
            )
        return Placements(runtime=self.runtime, true_runtime=EventTime.zero(), placements=out)


class ScriptedScheduler(BaseScheduler):
    """Plays a fixed script: `script` = list of invocations; invocation k (0-based, only invocations that happen
    at or after its `at` time consume it) = {"at": t, "decs": [{"task": "<name>@<graph>", "do": "place"|"unplaced"|
    "cancel", "pool": i, "worker": j or 0, "strategy": k, "time": t}]}.  Decisions for tasks that do not exist yet or
    have already started are dropped.  Used by directed worlds to force rare interleavings exactly."""

    def __init__(self, script, runtime=EventTime.zero(), lookahead=EventTime.zero(), retract_schedules=False,
                 release_taskgraphs=False, _flags=None):
        super().__init__(preemptive=False, runtime=runtime, lookahead=lookahead, enforce_deadlines=False,
                         policy=BranchPredictionPolicy.ALL, retract_schedules=retract_schedules,
                         release_taskgraphs=release_taskgraphs, _flags=_flags)
        self._script = list(script)
        self._next = 0

    def schedule(self, sim_time, workload, worker_pools):
        offered = workload.get_schedulable_tasks(sim_time, self.lookahead, self.preemptive, self.retract_schedules, worker_pools,
                                                 self.policy, self.branch_prediction_accuracy, self.release_taskgraphs)
        offered_ids = {t.id for t in offered}
        out = []
        now = sim_time.to(EventTime.Unit.US).time
        if self._next < len(self._script) and self._script[self._next].get("at", 0) <= now:
            inv = self._script[self._next]
            self._next += 1
            pools = list(worker_pools.worker_pools)
            for d in inv["decs"]:
                if d["do"] in ("load", "evict"):
                    prof = next((p for p in workload.work_profiles if p.name.split("_")[0] == d["profile"] or p.name == d["profile"]), None)
                    if prof is None:
                        continue
                    pool = pools[d.get("pool", 1) - 1]
                    wid = pool.workers[d["worker"] - 1].id if d.get("worker") else None
                    when = EventTime(max(d.get("time", now), now + self.runtime.to(EventTime.Unit.US).time), EventTime.Unit.US)
                    if d["do"] == "load":
                        out.append(Placement.create_load_profile_placement(
                            work_profile=prof, placement_time=when, worker_pool_id=pool.id, worker_id=wid,
                            loading_strategy=list(prof.loading_strategies)[d.get("strategy", 1) - 1]))
                    else:
                        out.append(Placement.create_evict_profile_placement(
                            work_profile=prof, placement_time=when, worker_pool_id=pool.id, worker_id=wid))
                    continue
                name, graph = d["task"].split("@", 1)
                tg = workload.get_task_graph(graph)
                if "ts" in d and tg is not None:
                    # trace-replay graphs hold one task per operator and timestamp
                    t = next((x for x in tg.get_nodes() if x.name == name and x.timestamp == d["ts"]), None)
                else:
                    t = tg.get_task(name) if tg is not None else None
                if t is None or t.state not in (TaskState.VIRTUAL, TaskState.RELEASED, TaskState.SCHEDULED):
                    continue
                if t.id not in offered_ids and not d.get("force"):
                    continue  # a policy only answers for tasks it was offered (C10); "force": directed worlds
                if d["do"] == "cancel":
                    out.append(Placement.create_task_cancellation(task=t))
                elif d["do"] == "unplaced":
                    out.append(Placement.create_task_placement(task=t))
                else:
                    pool = pools[d.get("pool", 1) - 1]
                    wid = pool.workers[d["worker"] - 1].id if d.get("worker") else None
                    strat = list(t.available_execution_strategies)[d.get("strategy", 1) - 1]
                    when = EventTime(max(d.get("time", now), now + self.runtime.to(EventTime.Unit.US).time), EventTime.Unit.US)
                    out.append(Placement.create_task_placement(task=t, placement_time=when, worker_pool_id=pool.id,
                                                               worker_id=wid, execution_strategy=strat))
        return Placements(runtime=self.runtime, true_runtime=EventTime.zero(), placements=out)
